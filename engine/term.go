package main

// Hash-consed SMT terms (Bool, BitVec, FloatingPoint) with a small simplifier,
// an SMT-LIB2 printer, a concrete evaluator and unsigned interval bounds.

import (
	"fmt"
	"math"
	"math/bits"
	"sort"
	"strings"
	"sync"
)

type SortKind uint8

const (
	KBool SortKind = iota
	KBV
	KFP
)

type Sort struct {
	K SortKind
	W int // BV width; FP: 32 or 64
}

var BoolSort = Sort{KBool, 0}

func BV(w int) Sort { return Sort{KBV, w} }
func FP(w int) Sort { return Sort{KFP, w} }

func (s Sort) SMT() string {
	switch s.K {
	case KBool:
		return "Bool"
	case KBV:
		return fmt.Sprintf("(_ BitVec %d)", s.W)
	default:
		if s.W == 32 {
			return "(_ FloatingPoint 8 24)"
		}
		return "(_ FloatingPoint 11 53)"
	}
}

type Op uint8

const (
	OpConst Op = iota
	OpVar
	OpNot
	OpAnd
	OpOr
	OpXorB
	OpEq
	OpIte
	OpBVAdd
	OpBVSub
	OpBVMul
	OpBVUDiv
	OpBVURem
	OpBVSDiv
	OpBVSRem
	OpBVAnd
	OpBVOr
	OpBVXor
	OpBVNot
	OpBVNeg
	OpBVShl
	OpBVLshr
	OpBVAshr
	OpBVUlt
	OpBVUle
	OpBVSlt
	OpBVSle
	OpConcat
	OpExtract // p1=hi p2=lo
	OpZext    // p1=extra bits
	OpSext
	OpFPAdd
	OpFPSub
	OpFPMul
	OpFPDiv
	OpFPNeg
	OpFPAbs
	OpFPLt
	OpFPLe
	OpFPEq // IEEE ==
	OpFPIsNaN
	OpFPIsInf
	OpFPFromSBV // p1 = target fp width
	OpFPFromUBV
	OpFPToFP  // fp->fp p1 = target width
	OpFPToSBV // p1 = bv width (RTZ)
	OpFPToUBV
	OpFPFromBits // bv -> fp reinterpret
)

var opNames = map[Op]string{
	OpNot: "not", OpAnd: "and", OpOr: "or", OpXorB: "xor", OpEq: "=", OpIte: "ite",
	OpBVAdd: "bvadd", OpBVSub: "bvsub", OpBVMul: "bvmul", OpBVUDiv: "bvudiv", OpBVURem: "bvurem",
	OpBVSDiv: "bvsdiv", OpBVSRem: "bvsrem", OpBVAnd: "bvand", OpBVOr: "bvor", OpBVXor: "bvxor",
	OpBVNot: "bvnot", OpBVNeg: "bvneg", OpBVShl: "bvshl", OpBVLshr: "bvlshr", OpBVAshr: "bvashr",
	OpBVUlt: "bvult", OpBVUle: "bvule", OpBVSlt: "bvslt", OpBVSle: "bvsle", OpConcat: "concat",
	OpFPAdd: "fp.add RNE", OpFPSub: "fp.sub RNE", OpFPMul: "fp.mul RNE", OpFPDiv: "fp.div RNE",
	OpFPNeg: "fp.neg", OpFPAbs: "fp.abs", OpFPLt: "fp.lt", OpFPLe: "fp.leq", OpFPEq: "fp.eq",
	OpFPIsNaN: "fp.isNaN", OpFPIsInf: "fp.isInfinite",
}

type Term struct {
	id   int
	op   Op
	sort Sort
	args [3]*Term
	n    int
	val  uint64
	name string
	p1   int
	p2   int
	lo   uint64 // cached unsigned bounds for BV terms
	hi   uint64
	syms []int // sorted ids of variables occurring (shared slices)
}

func (t *Term) Sort() Sort    { return t.sort }
func (t *Term) IsConst() bool { return t.op == OpConst }
func (t *Term) String() string {
	return printTermShort(t, 6)
}

type termKey struct {
	op         Op
	k          SortKind
	w          int
	a0, a1, a2 int
	val        uint64
	name       string
	p1, p2     int
}

type TermPool struct {
	mu    sync.Mutex
	tab   map[termKey]*Term
	next  int
	vars  map[string]*Term
	True  *Term
	False *Term
}

func NewTermPool() *TermPool {
	p := &TermPool{tab: map[termKey]*Term{}, vars: map[string]*Term{}}
	p.True = p.mk(OpConst, BoolSort, nil, 1, "", 0, 0)
	p.False = p.mk(OpConst, BoolSort, nil, 0, "", 0, 0)
	return p
}

func mask(w int) uint64 {
	if w >= 64 {
		return ^uint64(0)
	}
	return (uint64(1) << uint(w)) - 1
}

func (p *TermPool) mk(op Op, s Sort, args []*Term, val uint64, name string, p1, p2 int) *Term {
	k := termKey{op: op, k: s.K, w: s.W, val: val, name: name, p1: p1, p2: p2, a0: -1, a1: -1, a2: -1}
	if len(args) > 0 {
		k.a0 = args[0].id
	}
	if len(args) > 1 {
		k.a1 = args[1].id
	}
	if len(args) > 2 {
		k.a2 = args[2].id
	}
	p.mu.Lock()
	defer p.mu.Unlock()
	if t, ok := p.tab[k]; ok {
		return t
	}
	t := &Term{id: p.next, op: op, sort: s, val: val, name: name, p1: p1, p2: p2, n: len(args)}
	p.next++
	copy(t.args[:], args)
	// symbol sets
	switch {
	case op == OpVar:
		t.syms = []int{t.id}
	case len(args) == 1:
		t.syms = args[0].syms
	case len(args) > 1:
		t.syms = mergeSyms(args)
	}
	if s.K == KBV {
		t.lo, t.hi = p.computeBounds(t)
	}
	p.tab[k] = t
	return t
}

func mergeSyms(args []*Term) []int {
	var first []int
	same := true
	for _, a := range args {
		if len(a.syms) == 0 {
			continue
		}
		if first == nil {
			first = a.syms
		} else if &first[0] != &a.syms[0] || len(first) != len(a.syms) {
			same = false
		}
	}
	if same {
		return first
	}
	m := map[int]struct{}{}
	for _, a := range args {
		for _, s := range a.syms {
			m[s] = struct{}{}
		}
	}
	out := make([]int, 0, len(m))
	for s := range m {
		out = append(out, s)
	}
	sort.Ints(out)
	return out
}

func (p *TermPool) Var(name string, s Sort) *Term {
	t := p.mk(OpVar, s, nil, 0, name, 0, 0)
	p.mu.Lock()
	p.vars[name] = t
	p.mu.Unlock()
	return t
}

func (p *TermPool) BVConst(w int, v uint64) *Term {
	return p.mk(OpConst, BV(w), nil, v&mask(w), "", 0, 0)
}
func (p *TermPool) Bool(b bool) *Term {
	if b {
		return p.True
	}
	return p.False
}
func (p *TermPool) FPConst(w int, f float64) *Term {
	if w == 32 {
		return p.mk(OpConst, FP(32), nil, uint64(math.Float32bits(float32(f))), "", 0, 0)
	}
	return p.mk(OpConst, FP(64), nil, math.Float64bits(f), "", 0, 0)
}

func sext64(v uint64, w int) int64 {
	if w >= 64 {
		return int64(v)
	}
	sh := uint(64 - w)
	return int64(v<<sh) >> sh
}

// ---------- bounds ----------
func (p *TermPool) computeBounds(t *Term) (uint64, uint64) {
	w := t.sort.W
	m := mask(w)
	a := t.args
	switch t.op {
	case OpConst:
		return t.val, t.val
	case OpZext:
		return a[0].lo, a[0].hi
	case OpExtract:
		if t.p2 == 0 && a[0].hi <= m {
			return a[0].lo, a[0].hi
		}
		if a[0].hi>>uint(t.p2) <= m && t.p2 < 64 {
			return a[0].lo >> uint(t.p2), a[0].hi >> uint(t.p2)
		}
		return 0, m
	case OpBVAdd:
		hi, c := bits.Add64(a[0].hi, a[1].hi, 0)
		if c == 0 && hi <= m {
			return a[0].lo + a[1].lo, hi
		}
		return 0, m
	case OpBVSub:
		if a[0].lo >= a[1].hi {
			return a[0].lo - a[1].hi, a[0].hi - a[1].lo
		}
		return 0, m
	case OpBVMul:
		h, l := bits.Mul64(a[0].hi, a[1].hi)
		if h == 0 && l <= m {
			return a[0].lo * a[1].lo, l
		}
		return 0, m
	case OpBVAnd:
		hi := a[0].hi
		if a[1].hi < hi {
			hi = a[1].hi
		}
		return 0, hi
	case OpBVOr, OpBVXor:
		hb := bits.Len64(a[0].hi | a[1].hi)
		lo := uint64(0)
		if t.op == OpBVOr {
			lo = a[0].lo
			if a[1].lo > lo {
				lo = a[1].lo
			}
		}
		return lo, mask(hb) & m
	case OpBVLshr:
		if a[1].IsConst() && a[1].val < 64 {
			return a[0].lo >> a[1].val, a[0].hi >> a[1].val
		}
		return 0, a[0].hi
	case OpBVShl:
		if a[1].IsConst() && a[1].val < 64 {
			if bits.Len64(a[0].hi)+int(a[1].val) <= w {
				return a[0].lo << a[1].val, a[0].hi << a[1].val
			}
		}
		return 0, m
	case OpBVUDiv:
		if a[1].lo > 0 {
			return a[0].lo / a[1].hi, a[0].hi / a[1].lo
		}
		return 0, m
	case OpBVURem:
		if a[1].lo > 0 {
			hi := a[1].hi - 1
			if a[0].hi < hi {
				hi = a[0].hi
			}
			return 0, hi
		}
		return 0, m
	case OpIte:
		lo, hi := a[1].lo, a[1].hi
		if a[2].lo < lo {
			lo = a[2].lo
		}
		if a[2].hi > hi {
			hi = a[2].hi
		}
		return lo, hi
	case OpConcat:
		lw := a[1].sort.W
		if lw < 64 && a[0].hi <= mask(64-lw) {
			return a[0].lo<<uint(lw) | a[1].lo, a[0].hi<<uint(lw) | a[1].hi
		}
		return 0, m
	}
	return 0, m
}

// ---------- constructors with simplification ----------

func (p *TermPool) Not(a *Term) *Term {
	if a.IsConst() {
		return p.Bool(a.val == 0)
	}
	if a.op == OpNot {
		return a.args[0]
	}
	return p.mk(OpNot, BoolSort, []*Term{a}, 0, "", 0, 0)
}

func (p *TermPool) And(a, b *Term) *Term {
	if a.IsConst() {
		if a.val == 0 {
			return p.False
		}
		return b
	}
	if b.IsConst() {
		if b.val == 0 {
			return p.False
		}
		return a
	}
	if a == b {
		return a
	}
	if a.op == OpNot && a.args[0] == b || b.op == OpNot && b.args[0] == a {
		return p.False
	}
	if a.id > b.id {
		a, b = b, a
	}
	return p.mk(OpAnd, BoolSort, []*Term{a, b}, 0, "", 0, 0)
}

func (p *TermPool) Or(a, b *Term) *Term {
	if a.IsConst() {
		if a.val != 0 {
			return p.True
		}
		return b
	}
	if b.IsConst() {
		if b.val != 0 {
			return p.True
		}
		return a
	}
	if a == b {
		return a
	}
	if a.op == OpNot && a.args[0] == b || b.op == OpNot && b.args[0] == a {
		return p.True
	}
	if a.id > b.id {
		a, b = b, a
	}
	return p.mk(OpOr, BoolSort, []*Term{a, b}, 0, "", 0, 0)
}

func (p *TermPool) Implies(a, b *Term) *Term { return p.Or(p.Not(a), b) }

func (p *TermPool) AndN(ts ...*Term) *Term {
	r := p.True
	for _, t := range ts {
		r = p.And(r, t)
	}
	return r
}
func (p *TermPool) OrN(ts ...*Term) *Term {
	r := p.False
	for _, t := range ts {
		r = p.Or(r, t)
	}
	return r
}

func (p *TermPool) Eq(a, b *Term) *Term {
	if a.sort != b.sort {
		panic(fmt.Sprintf("Eq sort mismatch %v %v: %v vs %v", a.sort, b.sort, a, b))
	}
	if a == b && a.sort.K != KFP {
		return p.True
	}
	if a.IsConst() && b.IsConst() {
		if a.sort.K == KFP {
			// structural (bit) equality for SMT '='; NaNs all equal in SMT
			if a.sort.W == 64 {
				fa, fb := math.Float64frombits(a.val), math.Float64frombits(b.val)
				if fa != fa && fb != fb {
					return p.True
				}
			}
			return p.Bool(a.val == b.val)
		}
		return p.Bool(a.val == b.val)
	}
	if a.sort.K == KBool {
		if a.IsConst() {
			if a.val != 0 {
				return b
			}
			return p.Not(b)
		}
		if b.IsConst() {
			if b.val != 0 {
				return a
			}
			return p.Not(a)
		}
	}
	if a.sort.K == KBV {
		// disjoint ranges
		if a.hi < b.lo || b.hi < a.lo {
			return p.False
		}
		// zext(x)==zext(y) / zext(x)==const
		if a.op == OpZext && b.op == OpZext && a.args[0].sort == b.args[0].sort {
			return p.Eq(a.args[0], b.args[0])
		}
		if a.op == OpZext && b.IsConst() {
			a, b = b, a
		}
		if b.op == OpZext && a.IsConst() {
			iw := b.args[0].sort.W
			if a.val > mask(iw) {
				return p.False
			}
			return p.Eq(p.BVConst(iw, a.val), b.args[0])
		}
		// concat(x1,x2)==concat(y1,y2) same split
		if a.op == OpConcat && b.op == OpConcat && a.args[1].sort == b.args[1].sort {
			return p.And(p.Eq(a.args[0], b.args[0]), p.Eq(a.args[1], b.args[1]))
		}
		if a.op == OpConcat && b.IsConst() {
			a, b = b, a
		}
		if b.op == OpConcat && a.IsConst() {
			lw := b.args[1].sort.W
			return p.And(p.Eq(p.BVConst(b.args[0].sort.W, a.val>>uint(lw)), b.args[0]),
				p.Eq(p.BVConst(lw, a.val), b.args[1]))
		}
		// ite(c, k1, k2) == k  with constants
		if b.IsConst() {
			a, b = b, a
		}
		if a.IsConst() && b.op == OpIte && (b.args[1].IsConst() || b.args[2].IsConst()) {
			return p.Ite(b.args[0], p.Eq(a, b.args[1]), p.Eq(a, b.args[2]))
		}
		// x + k1 == k2
		if a.IsConst() && b.op == OpBVAdd && b.args[1].IsConst() {
			return p.Eq(p.BVConst(a.sort.W, a.val-b.args[1].val), b.args[0])
		}
		if a.IsConst() && b.op == OpBVXor && b.args[0].IsConst() {
			return p.Eq(p.BVConst(a.sort.W, a.val^b.args[0].val), b.args[1])
		}
	}
	if a.id > b.id {
		a, b = b, a
	}
	return p.mk(OpEq, BoolSort, []*Term{a, b}, 0, "", 0, 0)
}

func (p *TermPool) Ite(c, a, b *Term) *Term {
	if c.IsConst() {
		if c.val != 0 {
			return a
		}
		return b
	}
	if a == b {
		return a
	}
	if a.sort != b.sort {
		panic(fmt.Sprintf("Ite sort mismatch %v %v", a.sort, b.sort))
	}
	if a.sort.K == KBool {
		if a.IsConst() && b.IsConst() {
			if a.val != 0 {
				return c
			}
			return p.Not(c)
		}
		if a.IsConst() {
			if a.val != 0 {
				return p.Or(c, b)
			}
			return p.And(p.Not(c), b)
		}
		if b.IsConst() {
			if b.val != 0 {
				return p.Or(p.Not(c), a)
			}
			return p.And(c, a)
		}
	}
	if c.op == OpNot {
		return p.Ite(c.args[0], b, a)
	}
	// ite(c, x, ite(c, y, z)) -> ite(c,x,z)
	if b.op == OpIte && b.args[0] == c {
		return p.Ite(c, a, b.args[2])
	}
	if a.op == OpIte && a.args[0] == c {
		return p.Ite(c, a.args[1], b)
	}
	return p.mk(OpIte, a.sort, []*Term{c, a, b}, 0, "", 0, 0)
}

func (p *TermPool) bvBin(op Op, a, b *Term) *Term {
	if a.sort != b.sort {
		panic(fmt.Sprintf("bv op %v sort mismatch %v %v", opNames[op], a.sort, b.sort))
	}
	w := a.sort.W
	m := mask(w)
	if a.IsConst() && b.IsConst() {
		x, y := a.val, b.val
		var r uint64
		switch op {
		case OpBVAdd:
			r = x + y
		case OpBVSub:
			r = x - y
		case OpBVMul:
			r = x * y
		case OpBVUDiv:
			if y == 0 {
				r = m
			} else {
				r = x / y
			}
		case OpBVURem:
			if y == 0 {
				r = x
			} else {
				r = x % y
			}
		case OpBVSDiv:
			sx, sy := sext64(x, w), sext64(y, w)
			if sy == 0 {
				if sx < 0 {
					r = 1
				} else {
					r = m
				}
			} else if sy == -1 {
				r = uint64(-sx)
			} else {
				r = uint64(sx / sy)
			}
		case OpBVSRem:
			sx, sy := sext64(x, w), sext64(y, w)
			if sy == 0 {
				r = x
			} else if sy == -1 {
				r = 0
			} else {
				r = uint64(sx % sy)
			}
		case OpBVAnd:
			r = x & y
		case OpBVOr:
			r = x | y
		case OpBVXor:
			r = x ^ y
		case OpBVShl:
			if y >= uint64(w) {
				r = 0
			} else {
				r = x << y
			}
		case OpBVLshr:
			if y >= uint64(w) {
				r = 0
			} else {
				r = x >> y
			}
		case OpBVAshr:
			sx := sext64(x, w)
			if y >= uint64(w) {
				y = uint64(w - 1)
			}
			r = uint64(sx >> y)
		}
		return p.BVConst(w, r)
	}
	// commutative: constant first
	switch op {
	case OpBVAdd, OpBVMul, OpBVAnd, OpBVOr, OpBVXor:
		if b.IsConst() || (!a.IsConst() && a.id > b.id) {
			a, b = b, a
		}
	}
	switch op {
	case OpBVAdd:
		if a.IsConst() && a.val == 0 {
			return b
		}
		return p.addNormal(a, b, w)
	case OpBVSub:
		if b.IsConst() {
			if b.val == 0 {
				return a
			}
			return p.bvBin(OpBVAdd, p.BVConst(w, -b.val), a)
		}
		if a == b {
			return p.BVConst(w, 0)
		}
		// (x + y) - y
		if a.op == OpBVAdd && a.args[1] == b {
			return a.args[0]
		}
		if a.op == OpBVAdd && a.args[0] == b {
			return a.args[1]
		}
		// (x + k) - x
		if a.op == OpBVAdd && a.args[1].IsConst() && a.args[0] == b {
			return a.args[1]
		}
	case OpBVMul:
		if a.IsConst() {
			if a.val == 0 {
				return a
			}
			if a.val == 1 {
				return b
			}
		}
	case OpBVAnd:
		if a.IsConst() {
			if a.val == 0 {
				return a
			}
			if a.val == m {
				return b
			}
			// mask covers the whole range of b
			if b.hi <= a.val && a.val&(a.val+1) == 0 {
				return b
			}
			// and with low mask of a zext/concat -> extract
			if a.val&(a.val+1) == 0 {
				k := bits.Len64(a.val)
				return p.Zext(p.Extract(b, k-1, 0), w-k)
			}
		}
		if a == b {
			return a
		}
	case OpBVOr:
		if a.IsConst() {
			if a.val == 0 {
				return b
			}
			if a.val == m {
				return a
			}
		}
		if a == b {
			return a
		}
		// byte assembly: (zext(x) << k) | zext(y) with y narrower than k  -> concat
		if r := p.tryConcatOr(a, b, w); r != nil {
			return r
		}
		if r := p.tryConcatOr(b, a, w); r != nil {
			return r
		}
	case OpBVXor:
		if a.IsConst() && a.val == 0 {
			return b
		}
		if a == b {
			return p.BVConst(w, 0)
		}
	case OpBVShl:
		if b.IsConst() {
			if b.val == 0 {
				return a
			}
			if b.val >= uint64(w) {
				return p.BVConst(w, 0)
			}
			if a.op == OpBVAdd {
				// (x+y)<<k = (x<<k)+(y<<k): keeps sums in one flat, order-independent form
				return p.bvBin(OpBVAdd, p.bvBin(OpBVShl, a.args[0], b), p.bvBin(OpBVShl, a.args[1], b))
			}
			k := int(b.val)
			// shl of value -> concat(extract(a, w-k-1, 0), 0_k)
			return p.Concat(p.Extract(a, w-k-1, 0), p.BVConst(k, 0))
		}
		if a.IsConst() && a.val == 0 {
			return a
		}
	case OpBVLshr:
		if b.IsConst() {
			if b.val == 0 {
				return a
			}
			if b.val >= uint64(w) {
				return p.BVConst(w, 0)
			}
			k := int(b.val)
			return p.Zext(p.Extract(a, w-1, k), k)
		}
		if a.IsConst() && a.val == 0 {
			return a
		}
	case OpBVAshr:
		if b.IsConst() {
			if b.val == 0 {
				return a
			}
			k := int(b.val)
			if k >= w {
				k = w - 1
			}
			return p.Sext(p.Extract(a, w-1, k), k)
		}
	case OpBVUDiv:
		if b.IsConst() && b.val == 1 {
			return a
		}
		if b.IsConst() && b.val != 0 && b.val&(b.val-1) == 0 {
			return p.bvBin(OpBVLshr, a, p.BVConst(w, uint64(bits.TrailingZeros64(b.val))))
		}
	case OpBVURem:
		if b.IsConst() && b.val != 0 && b.val&(b.val-1) == 0 {
			return p.bvBin(OpBVAnd, a, p.BVConst(w, b.val-1))
		}
	}
	return p.mk(op, a.sort, []*Term{a, b}, 0, "", 0, 0)
}

// addNormal builds a sum in AC-normal form: nested additions are flattened, constants combined, addends sorted by
// term id and re-nested to the right, so that two sums of the same addends in different orders are the same term.
func (p *TermPool) addNormal(a, b *Term, w int) *Term {
	var atoms []*Term
	var k uint64
	var collect func(t *Term)
	collect = func(t *Term) {
		for t.op == OpBVAdd {
			collect(t.args[0])
			t = t.args[1]
		}
		if t.IsConst() {
			k += t.val
			return
		}
		atoms = append(atoms, t)
	}
	collect(a)
	collect(b)
	sort.Slice(atoms, func(i, j int) bool { return atoms[i].id < atoms[j].id })
	k &= mask(w)
	// left-nested in id order: a sum extended by later-created addends keeps the earlier sum as a shared subterm
	var res *Term
	for _, t := range atoms {
		if res == nil {
			res = t
		} else {
			res = p.mk(OpBVAdd, BV(w), []*Term{res, t}, 0, "", 0, 0)
		}
	}
	if res == nil {
		return p.BVConst(w, k)
	}
	if k != 0 {
		res = p.mk(OpBVAdd, BV(w), []*Term{res, p.BVConst(w, k)}, 0, "", 0, 0)
	}
	return res
}

// cancelCommonAddends: for an unsigned comparison of two sums neither of which can wrap (the sum of the upper bounds
// of the addends plus the constant stays below 2^w), addends occurring on both sides and the common part of the
// constants are removed: x + s < y + s  <=>  x < y when no addition overflows. Returns ok=false if nothing cancels
// or a wrap cannot be excluded from the interval bounds.
func (p *TermPool) cancelCommonAddends(a, b *Term, w int) (*Term, *Term, bool) {
	split := func(t *Term) (atoms []*Term, k uint64, ok bool) {
		var collect func(t *Term)
		collect = func(t *Term) {
			for t.op == OpBVAdd {
				collect(t.args[0])
				t = t.args[1]
			}
			if t.IsConst() {
				k += t.val // constants of a normal-form sum were already combined; a wrap here is caught below
				return
			}
			atoms = append(atoms, t)
		}
		collect(t)
		// no-wrap check on the mathematical sum of upper bounds
		tot := k
		if k > mask(w) {
			return nil, 0, false
		}
		for _, x := range atoms {
			if x.hi > mask(w)-tot {
				return nil, 0, false
			}
			tot += x.hi
		}
		return atoms, k, true
	}
	aa, ka, ok1 := split(a)
	ba, kb, ok2 := split(b)
	if !ok1 || !ok2 {
		return nil, nil, false
	}
	cnt := map[int]int{}
	for _, x := range ba {
		cnt[x.id]++
	}
	var ra, rb []*Term
	cancelled := false
	for _, x := range aa {
		if cnt[x.id] > 0 {
			cnt[x.id]--
			cancelled = true
			continue
		}
		ra = append(ra, x)
	}
	// occurrences of b's addends that were not matched by one of a's
	left := map[int]int{}
	for _, x := range aa {
		left[x.id]++
	}
	for _, x := range ba {
		if left[x.id] > 0 {
			left[x.id]--
			continue
		}
		rb = append(rb, x)
	}
	kc := ka
	if kb < kc {
		kc = kb
	}
	if kc > 0 {
		cancelled = true
	}
	if !cancelled {
		return nil, nil, false
	}
	build := func(atoms []*Term, k uint64) *Term {
		res := p.BVConst(w, k)
		for _, x := range atoms {
			res = p.addNormal(res, x, w)
		}
		return res
	}
	return build(ra, ka-kc), build(rb, kb-kc), true
}

// tryConcatOr recognises hi|lo where hi = concat(X, 0_k) and lo < 2^k.
func (p *TermPool) tryConcatOr(hi, lo *Term, w int) *Term {
	if hi.op == OpConcat && hi.args[1].IsConst() && hi.args[1].val == 0 {
		k := hi.args[1].sort.W
		if k < 64 && lo.hi <= mask(k) {
			return p.Concat(hi.args[0], p.Extract(lo, k-1, 0))
		}
	}
	return nil
}

func (p *TermPool) Add(a, b *Term) *Term  { return p.bvBin(OpBVAdd, a, b) }
func (p *TermPool) Sub(a, b *Term) *Term  { return p.bvBin(OpBVSub, a, b) }
func (p *TermPool) Mul(a, b *Term) *Term  { return p.bvBin(OpBVMul, a, b) }
func (p *TermPool) UDiv(a, b *Term) *Term { return p.bvBin(OpBVUDiv, a, b) }
func (p *TermPool) URem(a, b *Term) *Term { return p.bvBin(OpBVURem, a, b) }
func (p *TermPool) SDiv(a, b *Term) *Term { return p.bvBin(OpBVSDiv, a, b) }
func (p *TermPool) SRem(a, b *Term) *Term { return p.bvBin(OpBVSRem, a, b) }
func (p *TermPool) BAnd(a, b *Term) *Term { return p.bvBin(OpBVAnd, a, b) }
func (p *TermPool) BOr(a, b *Term) *Term  { return p.bvBin(OpBVOr, a, b) }
func (p *TermPool) BXor(a, b *Term) *Term { return p.bvBin(OpBVXor, a, b) }
func (p *TermPool) Shl(a, b *Term) *Term  { return p.bvBin(OpBVShl, a, b) }
func (p *TermPool) Lshr(a, b *Term) *Term { return p.bvBin(OpBVLshr, a, b) }
func (p *TermPool) Ashr(a, b *Term) *Term { return p.bvBin(OpBVAshr, a, b) }

func (p *TermPool) BNot(a *Term) *Term {
	if a.IsConst() {
		return p.BVConst(a.sort.W, ^a.val)
	}
	if a.op == OpBVNot {
		return a.args[0]
	}
	return p.mk(OpBVNot, a.sort, []*Term{a}, 0, "", 0, 0)
}
func (p *TermPool) Neg(a *Term) *Term {
	if a.IsConst() {
		return p.BVConst(a.sort.W, -a.val)
	}
	return p.mk(OpBVNeg, a.sort, []*Term{a}, 0, "", 0, 0)
}

func (p *TermPool) cmp(op Op, a, b *Term) *Term {
	if a.sort != b.sort {
		panic(fmt.Sprintf("cmp sort mismatch %v %v", a.sort, b.sort))
	}
	w := a.sort.W
	if a.IsConst() && b.IsConst() {
		switch op {
		case OpBVUlt:
			return p.Bool(a.val < b.val)
		case OpBVUle:
			return p.Bool(a.val <= b.val)
		case OpBVSlt:
			return p.Bool(sext64(a.val, w) < sext64(b.val, w))
		case OpBVSle:
			return p.Bool(sext64(a.val, w) <= sext64(b.val, w))
		}
	}
	switch op {
	case OpBVUlt:
		if a.hi < b.lo {
			return p.True
		}
		if a.lo >= b.hi {
			return p.False
		}
	case OpBVUle:
		if a.hi <= b.lo {
			return p.True
		}
		if a.lo > b.hi {
			return p.False
		}
	case OpBVSlt, OpBVSle:
		// if both are known non-negative as signed, use unsigned
		sm := mask(w - 1)
		if a.hi <= sm && b.hi <= sm {
			if op == OpBVSlt {
				return p.cmp(OpBVUlt, a, b)
			}
			return p.cmp(OpBVUle, a, b)
		}
	}
	if a == b {
		return p.Bool(op == OpBVUle || op == OpBVSle)
	}
	if (op == OpBVUlt || op == OpBVUle) && (a.op == OpBVAdd || b.op == OpBVAdd) && w <= 64 {
		if ra, rb, ok := p.cancelCommonAddends(a, b, w); ok {
			return p.cmp(op, ra, rb)
		}
	}
	if (op == OpBVUlt || op == OpBVUle) && a.op == OpZext && b.op == OpZext && a.args[0].sort == b.args[0].sort {
		return p.cmp(op, a.args[0], b.args[0])
	}
	if (op == OpBVUlt || op == OpBVUle) && a.op == OpZext && b.IsConst() {
		iw := a.args[0].sort.W
		if b.val > mask(iw) {
			return p.True
		}
		return p.cmp(op, a.args[0], p.BVConst(iw, b.val))
	}
	if (op == OpBVUlt || op == OpBVUle) && b.op == OpZext && a.IsConst() {
		iw := b.args[0].sort.W
		if a.val > mask(iw) {
			return p.False
		}
		return p.cmp(op, p.BVConst(iw, a.val), b.args[0])
	}
	return p.mk(op, BoolSort, []*Term{a, b}, 0, "", 0, 0)
}
func (p *TermPool) Ult(a, b *Term) *Term { return p.cmp(OpBVUlt, a, b) }
func (p *TermPool) Ule(a, b *Term) *Term { return p.cmp(OpBVUle, a, b) }
func (p *TermPool) Slt(a, b *Term) *Term { return p.cmp(OpBVSlt, a, b) }
func (p *TermPool) Sle(a, b *Term) *Term { return p.cmp(OpBVSle, a, b) }

func (p *TermPool) Concat(a, b *Term) *Term {
	w := a.sort.W + b.sort.W
	if a.IsConst() && b.IsConst() && w <= 64 {
		return p.BVConst(w, a.val<<uint(b.sort.W)|b.val)
	}
	if a.IsConst() && a.val == 0 {
		return p.Zext(b, a.sort.W)
	}
	if a.op == OpBVNot && b.op == OpBVNot {
		return p.BNot(p.Concat(a.args[0], b.args[0]))
	}
	// concat(extract(x,h,m+1), extract(x,m,l)) -> extract(x,h,l)
	if a.op == OpExtract && b.op == OpExtract && a.args[0] == b.args[0] && a.p2 == b.p1+1 {
		return p.Extract(a.args[0], a.p1, b.p2)
	}
	return p.mk(OpConcat, BV(w), []*Term{a, b}, 0, "", 0, 0)
}

func (p *TermPool) Extract(a *Term, hi, lo int) *Term {
	w := hi - lo + 1
	if lo == 0 && w == a.sort.W {
		return a
	}
	if hi >= a.sort.W || lo < 0 || w <= 0 {
		panic(fmt.Sprintf("bad extract %d %d of width %d", hi, lo, a.sort.W))
	}
	if a.IsConst() {
		return p.BVConst(w, a.val>>uint(lo))
	}
	switch a.op {
	case OpExtract:
		return p.Extract(a.args[0], a.p2+hi, a.p2+lo)
	case OpConcat:
		lw := a.args[1].sort.W
		if hi < lw {
			return p.Extract(a.args[1], hi, lo)
		}
		if lo >= lw {
			return p.Extract(a.args[0], hi-lw, lo-lw)
		}
		return p.Concat(p.Extract(a.args[0], hi-lw, 0), p.Extract(a.args[1], lw-1, lo))
	case OpZext:
		iw := a.args[0].sort.W
		if hi < iw {
			return p.Extract(a.args[0], hi, lo)
		}
		if lo >= iw {
			return p.BVConst(w, 0)
		}
		return p.Zext(p.Extract(a.args[0], iw-1, lo), hi-iw+1)
	case OpSext:
		iw := a.args[0].sort.W
		if hi < iw {
			return p.Extract(a.args[0], hi, lo)
		}
	case OpBVAnd, OpBVOr, OpBVXor:
		return p.bvBin(a.op, p.Extract(a.args[0], hi, lo), p.Extract(a.args[1], hi, lo))
	case OpBVNot:
		return p.BNot(p.Extract(a.args[0], hi, lo))
	case OpIte:
		if a.args[1].IsConst() || a.args[2].IsConst() {
			return p.Ite(a.args[0], p.Extract(a.args[1], hi, lo), p.Extract(a.args[2], hi, lo))
		}
	}
	return p.mk(OpExtract, BV(w), []*Term{a}, 0, "", hi, lo)
}

func (p *TermPool) Zext(a *Term, extra int) *Term {
	if extra == 0 {
		return a
	}
	if a.IsConst() {
		return p.BVConst(a.sort.W+extra, a.val)
	}
	if a.op == OpZext {
		return p.Zext(a.args[0], extra+a.p1)
	}
	return p.mk(OpZext, BV(a.sort.W+extra), []*Term{a}, 0, "", extra, 0)
}

func (p *TermPool) Sext(a *Term, extra int) *Term {
	if extra == 0 {
		return a
	}
	if a.IsConst() {
		return p.BVConst(a.sort.W+extra, uint64(sext64(a.val, a.sort.W)))
	}
	if a.hi <= mask(a.sort.W-1) {
		return p.Zext(a, extra)
	}
	return p.mk(OpSext, BV(a.sort.W+extra), []*Term{a}, 0, "", extra, 0)
}

// Resize converts a BV to width w with given signedness of the source.
func (p *TermPool) Resize(a *Term, w int, srcSigned bool) *Term {
	if a.sort.W == w {
		return a
	}
	if a.sort.W > w {
		return p.Extract(a, w-1, 0)
	}
	if srcSigned {
		return p.Sext(a, w-a.sort.W)
	}
	return p.Zext(a, w-a.sort.W)
}

// ---- floating point ----
func fpOf(t *Term) float64 {
	if t.sort.W == 32 {
		return float64(math.Float32frombits(uint32(t.val)))
	}
	return math.Float64frombits(t.val)
}

func (p *TermPool) fpBin(op Op, a, b *Term) *Term {
	if a.sort != b.sort {
		panic("fp sort mismatch")
	}
	if a.IsConst() && b.IsConst() {
		x, y := fpOf(a), fpOf(b)
		w := a.sort.W
		var r float64
		if w == 32 {
			x32, y32 := float32(x), float32(y)
			switch op {
			case OpFPAdd:
				r = float64(x32 + y32)
			case OpFPSub:
				r = float64(x32 - y32)
			case OpFPMul:
				r = float64(x32 * y32)
			case OpFPDiv:
				r = float64(x32 / y32)
			}
		} else {
			switch op {
			case OpFPAdd:
				r = x + y
			case OpFPSub:
				r = x - y
			case OpFPMul:
				r = x * y
			case OpFPDiv:
				r = x / y
			}
		}
		return p.FPConst(w, r)
	}
	return p.mk(op, a.sort, []*Term{a, b}, 0, "", 0, 0)
}
func (p *TermPool) FAdd(a, b *Term) *Term { return p.fpBin(OpFPAdd, a, b) }
func (p *TermPool) FSub(a, b *Term) *Term { return p.fpBin(OpFPSub, a, b) }
func (p *TermPool) FMul(a, b *Term) *Term { return p.fpBin(OpFPMul, a, b) }
func (p *TermPool) FDiv(a, b *Term) *Term { return p.fpBin(OpFPDiv, a, b) }
func (p *TermPool) FNeg(a *Term) *Term {
	if a.IsConst() {
		return p.FPConst(a.sort.W, -fpOf(a))
	}
	return p.mk(OpFPNeg, a.sort, []*Term{a}, 0, "", 0, 0)
}
func (p *TermPool) FAbs(a *Term) *Term {
	if a.IsConst() {
		return p.FPConst(a.sort.W, math.Abs(fpOf(a)))
	}
	return p.mk(OpFPAbs, a.sort, []*Term{a}, 0, "", 0, 0)
}
func (p *TermPool) fpCmp(op Op, a, b *Term) *Term {
	if a.IsConst() && b.IsConst() {
		x, y := fpOf(a), fpOf(b)
		switch op {
		case OpFPLt:
			return p.Bool(x < y)
		case OpFPLe:
			return p.Bool(x <= y)
		case OpFPEq:
			return p.Bool(x == y)
		}
	}
	return p.mk(op, BoolSort, []*Term{a, b}, 0, "", 0, 0)
}
func (p *TermPool) FLt(a, b *Term) *Term { return p.fpCmp(OpFPLt, a, b) }
func (p *TermPool) FLe(a, b *Term) *Term { return p.fpCmp(OpFPLe, a, b) }
func (p *TermPool) FEq(a, b *Term) *Term { return p.fpCmp(OpFPEq, a, b) }
func (p *TermPool) FIsNaN(a *Term) *Term {
	if a.IsConst() {
		f := fpOf(a)
		return p.Bool(f != f)
	}
	return p.mk(OpFPIsNaN, BoolSort, []*Term{a}, 0, "", 0, 0)
}
func (p *TermPool) FIsInf(a *Term) *Term {
	if a.IsConst() {
		return p.Bool(math.IsInf(fpOf(a), 0))
	}
	return p.mk(OpFPIsInf, BoolSort, []*Term{a}, 0, "", 0, 0)
}
func (p *TermPool) FFromBV(a *Term, signed bool, fw int) *Term {
	if a.IsConst() {
		if signed {
			return p.FPConst(fw, float64(sext64(a.val, a.sort.W)))
		}
		return p.FPConst(fw, float64(a.val))
	}
	op := OpFPFromUBV
	if signed {
		op = OpFPFromSBV
	}
	return p.mk(op, FP(fw), []*Term{a}, 0, "", fw, 0)
}
func (p *TermPool) FToFP(a *Term, fw int) *Term {
	if a.sort.W == fw {
		return a
	}
	if a.IsConst() {
		return p.FPConst(fw, fpOf(a))
	}
	return p.mk(OpFPToFP, FP(fw), []*Term{a}, 0, "", fw, 0)
}
func (p *TermPool) FToBV(a *Term, signed bool, w int) *Term {
	if a.IsConst() {
		f := fpOf(a)
		if signed {
			return p.BVConst(w, uint64(int64(f)))
		}
		return p.BVConst(w, uint64(f))
	}
	op := OpFPToUBV
	if signed {
		op = OpFPToSBV
	}
	return p.mk(op, BV(w), []*Term{a}, 0, "", w, 0)
}
func (p *TermPool) FFromBits(a *Term) *Term {
	if a.IsConst() {
		return p.mk(OpConst, FP(a.sort.W), nil, a.val, "", 0, 0)
	}
	return p.mk(OpFPFromBits, FP(a.sort.W), []*Term{a}, 0, "", 0, 0)
}

// ---------- printing ----------

func constSMT(t *Term) string {
	switch t.sort.K {
	case KBool:
		if t.val != 0 {
			return "true"
		}
		return "false"
	case KBV:
		if t.sort.W%4 == 0 {
			return fmt.Sprintf("#x%0*x", t.sort.W/4, t.val)
		}
		return fmt.Sprintf("#b%0*b", t.sort.W, t.val)
	default:
		if t.sort.W == 32 {
			v := uint32(t.val)
			return fmt.Sprintf("(fp #b%b #b%08b #b%023b)", v>>31, (v>>23)&0xff, v&0x7fffff)
		}
		v := t.val
		return fmt.Sprintf("(fp #b%b #b%011b #b%052b)", v>>63, (v>>52)&0x7ff, v&((1<<52)-1))
	}
}

func smtName(t *Term) string {
	if t.op == OpVar {
		return "|" + t.name + "|"
	}
	return fmt.Sprintf("t%d", t.id)
}

// headSMT prints t with children referenced by name.
func headSMT(t *Term, ref func(*Term) string) string {
	switch t.op {
	case OpConst:
		return constSMT(t)
	case OpVar:
		return smtName(t)
	case OpExtract:
		return fmt.Sprintf("((_ extract %d %d) %s)", t.p1, t.p2, ref(t.args[0]))
	case OpZext:
		return fmt.Sprintf("((_ zero_extend %d) %s)", t.p1, ref(t.args[0]))
	case OpSext:
		return fmt.Sprintf("((_ sign_extend %d) %s)", t.p1, ref(t.args[0]))
	case OpFPFromSBV, OpFPToFP:
		e, s := 11, 53
		if t.p1 == 32 {
			e, s = 8, 24
		}
		return fmt.Sprintf("((_ to_fp %d %d) RNE %s)", e, s, ref(t.args[0]))
	case OpFPFromUBV:
		e, s := 11, 53
		if t.p1 == 32 {
			e, s = 8, 24
		}
		return fmt.Sprintf("((_ to_fp_unsigned %d %d) RNE %s)", e, s, ref(t.args[0]))
	case OpFPToSBV:
		return fmt.Sprintf("((_ fp.to_sbv %d) RTZ %s)", t.p1, ref(t.args[0]))
	case OpFPToUBV:
		return fmt.Sprintf("((_ fp.to_ubv %d) RTZ %s)", t.p1, ref(t.args[0]))
	case OpFPFromBits:
		e, s := 11, 53
		if t.sort.W == 32 {
			e, s = 8, 24
		}
		return fmt.Sprintf("((_ to_fp %d %d) %s)", e, s, ref(t.args[0]))
	}
	var sb strings.Builder
	sb.WriteByte('(')
	sb.WriteString(opNames[t.op])
	for i := 0; i < t.n; i++ {
		sb.WriteByte(' ')
		sb.WriteString(ref(t.args[i]))
	}
	sb.WriteByte(')')
	return sb.String()
}

func printTermShort(t *Term, depth int) string {
	if t == nil {
		return "<nil>"
	}
	if depth == 0 && t.n > 0 {
		return fmt.Sprintf("t%d", t.id)
	}
	return headSMT(t, func(c *Term) string { return printTermShort(c, depth-1) })
}

// ---------- evaluation under a model ----------

type Model map[int]uint64 // var term id -> value (BV value, bool 0/1, fp bits)

type evalCtx struct {
	m     Model
	cache map[int]uint64
}

func (p *TermPool) Eval(t *Term, m Model) uint64 {
	c := &evalCtx{m: m, cache: map[int]uint64{}}
	return c.eval(t)
}

func (c *evalCtx) eval(t *Term) uint64 {
	if t.op == OpConst {
		return t.val
	}
	if v, ok := c.cache[t.id]; ok {
		return v
	}
	r := c.eval1(t)
	c.cache[t.id] = r
	return r
}

func b2u(b bool) uint64 {
	if b {
		return 1
	}
	return 0
}

func fpv(w int, bitsv uint64) float64 {
	if w == 32 {
		return float64(math.Float32frombits(uint32(bitsv)))
	}
	return math.Float64frombits(bitsv)
}
func fpb(w int, f float64) uint64 {
	if w == 32 {
		return uint64(math.Float32bits(float32(f)))
	}
	return math.Float64bits(f)
}

func (c *evalCtx) eval1(t *Term) uint64 {
	a := t.args
	w := t.sort.W
	switch t.op {
	case OpVar:
		return c.m[t.id] // default 0
	case OpNot:
		return 1 - c.eval(a[0])
	case OpAnd:
		if c.eval(a[0]) == 0 {
			return 0
		}
		return c.eval(a[1])
	case OpOr:
		if c.eval(a[0]) != 0 {
			return 1
		}
		return c.eval(a[1])
	case OpXorB:
		return c.eval(a[0]) ^ c.eval(a[1])
	case OpEq:
		x, y := c.eval(a[0]), c.eval(a[1])
		if a[0].sort.K == KFP {
			fx, fy := fpv(a[0].sort.W, x), fpv(a[0].sort.W, y)
			if fx != fx && fy != fy {
				return 1
			}
		}
		return b2u(x == y)
	case OpIte:
		if c.eval(a[0]) != 0 {
			return c.eval(a[1])
		}
		return c.eval(a[2])
	case OpBVAdd, OpBVSub, OpBVMul, OpBVUDiv, OpBVURem, OpBVSDiv, OpBVSRem, OpBVAnd, OpBVOr, OpBVXor, OpBVShl, OpBVLshr, OpBVAshr:
		x, y := c.eval(a[0]), c.eval(a[1])
		// reuse constant folding through a scratch computation
		return foldBV(t.op, w, x, y)
	case OpBVNot:
		return ^c.eval(a[0]) & mask(w)
	case OpBVNeg:
		return -c.eval(a[0]) & mask(w)
	case OpBVUlt:
		return b2u(c.eval(a[0]) < c.eval(a[1]))
	case OpBVUle:
		return b2u(c.eval(a[0]) <= c.eval(a[1]))
	case OpBVSlt:
		return b2u(sext64(c.eval(a[0]), a[0].sort.W) < sext64(c.eval(a[1]), a[0].sort.W))
	case OpBVSle:
		return b2u(sext64(c.eval(a[0]), a[0].sort.W) <= sext64(c.eval(a[1]), a[0].sort.W))
	case OpConcat:
		return (c.eval(a[0])<<uint(a[1].sort.W) | c.eval(a[1])) & mask(w)
	case OpExtract:
		return (c.eval(a[0]) >> uint(t.p2)) & mask(w)
	case OpZext:
		return c.eval(a[0])
	case OpSext:
		return uint64(sext64(c.eval(a[0]), a[0].sort.W)) & mask(w)
	case OpFPAdd, OpFPSub, OpFPMul, OpFPDiv:
		x, y := fpv(w, c.eval(a[0])), fpv(w, c.eval(a[1]))
		var r float64
		if w == 32 {
			x32, y32 := float32(x), float32(y)
			switch t.op {
			case OpFPAdd:
				r = float64(x32 + y32)
			case OpFPSub:
				r = float64(x32 - y32)
			case OpFPMul:
				r = float64(x32 * y32)
			default:
				r = float64(x32 / y32)
			}
		} else {
			switch t.op {
			case OpFPAdd:
				r = x + y
			case OpFPSub:
				r = x - y
			case OpFPMul:
				r = x * y
			default:
				r = x / y
			}
		}
		return fpb(w, r)
	case OpFPNeg:
		return fpb(w, -fpv(w, c.eval(a[0])))
	case OpFPAbs:
		return fpb(w, math.Abs(fpv(w, c.eval(a[0]))))
	case OpFPLt:
		return b2u(fpv(a[0].sort.W, c.eval(a[0])) < fpv(a[0].sort.W, c.eval(a[1])))
	case OpFPLe:
		return b2u(fpv(a[0].sort.W, c.eval(a[0])) <= fpv(a[0].sort.W, c.eval(a[1])))
	case OpFPEq:
		return b2u(fpv(a[0].sort.W, c.eval(a[0])) == fpv(a[0].sort.W, c.eval(a[1])))
	case OpFPIsNaN:
		f := fpv(a[0].sort.W, c.eval(a[0]))
		return b2u(f != f)
	case OpFPIsInf:
		return b2u(math.IsInf(fpv(a[0].sort.W, c.eval(a[0])), 0))
	case OpFPFromSBV:
		return fpb(w, float64(sext64(c.eval(a[0]), a[0].sort.W)))
	case OpFPFromUBV:
		return fpb(w, float64(c.eval(a[0])))
	case OpFPToFP:
		return fpb(w, fpv(a[0].sort.W, c.eval(a[0])))
	case OpFPToSBV:
		return uint64(int64(fpv(a[0].sort.W, c.eval(a[0])))) & mask(w)
	case OpFPToUBV:
		return uint64(fpv(a[0].sort.W, c.eval(a[0]))) & mask(w)
	case OpFPFromBits:
		return c.eval(a[0])
	}
	panic(fmt.Sprintf("eval: unhandled op %d", t.op))
}

func foldBV(op Op, w int, x, y uint64) uint64 {
	m := mask(w)
	var r uint64
	switch op {
	case OpBVAdd:
		r = x + y
	case OpBVSub:
		r = x - y
	case OpBVMul:
		r = x * y
	case OpBVUDiv:
		if y == 0 {
			r = m
		} else {
			r = x / y
		}
	case OpBVURem:
		if y == 0 {
			r = x
		} else {
			r = x % y
		}
	case OpBVSDiv:
		sx, sy := sext64(x, w), sext64(y, w)
		if sy == 0 {
			if sx < 0 {
				r = 1
			} else {
				r = m
			}
		} else if sy == -1 {
			r = uint64(-sx)
		} else {
			r = uint64(sx / sy)
		}
	case OpBVSRem:
		sx, sy := sext64(x, w), sext64(y, w)
		if sy == 0 {
			r = x
		} else if sy == -1 {
			r = 0
		} else {
			r = uint64(sx % sy)
		}
	case OpBVAnd:
		r = x & y
	case OpBVOr:
		r = x | y
	case OpBVXor:
		r = x ^ y
	case OpBVShl:
		if y >= uint64(w) {
			r = 0
		} else {
			r = x << y
		}
	case OpBVLshr:
		if y >= uint64(w) {
			r = 0
		} else {
			r = x >> y
		}
	case OpBVAshr:
		sx := sext64(x, w)
		if y >= uint64(w) {
			y = uint64(w - 1)
		}
		r = uint64(sx >> y)
	}
	return r & m
}
