package main

import (
	"fmt"
	"sort"
	"go/constant"
	"go/token"
	"go/types"
	"strings"
	"sync"

	"golang.org/x/tools/go/ssa"
)

// ---------- engine (shared, read-only after load) ----------

type Engine struct {
	prog      *ssa.Program
	pkgs      []*ssa.Package
	layouts   sync.Map // types.Type -> *Layout
	finfo     sync.Map // *ssa.Function -> *FuncInfo
	modelFn   sync.Map // *ssa.Function -> bool
	redirects map[string]string
	repoRoot  string
	verbose   int
}

type FuncInfo struct {
	idx   map[ssa.Value]int
	nregs int
}

func (e *Engine) funcInfo(fn *ssa.Function) *FuncInfo {
	if fi, ok := e.finfo.Load(fn); ok {
		return fi.(*FuncInfo)
	}
	fi := &FuncInfo{idx: map[ssa.Value]int{}}
	n := 0
	for _, p := range fn.Params {
		fi.idx[p] = n
		n++
	}
	for _, fv := range fn.FreeVars {
		fi.idx[fv] = n
		n++
	}
	for _, b := range fn.Blocks {
		for _, in := range b.Instrs {
			if v, ok := in.(ssa.Value); ok {
				fi.idx[v] = n
				n++
			}
		}
	}
	fi.nregs = n
	e.finfo.Store(fn, fi)
	return fi
}

// ---------- per-path state ----------

type trailKind uint8

const (
	tkSlot trailKind = iota
	tkFunc
)

type trailEnt struct {
	kind trailKind
	obj  *Obj
	idx  int
	old  Value
	undo func()
}

type deferred struct {
	fn   Value // *Closure
	args []Value
	// invoke-mode defers are resolved at defer time
}

type Frame struct {
	fn        *ssa.Function
	fi        *FuncInfo
	regs      []Value
	block     *ssa.BasicBlock
	prev      *ssa.BasicBlock
	ip        int
	defers    []deferred
	resultReg int // register in caller to receive the result (-1: discard)
	unwinding bool
	isDefer   bool
	visits    map[int]int
}

type panicState struct {
	val       Value // Iface
	recovered bool
	msg       string
}

type gStatus int

const (
	gRunnable gStatus = iota
	gBlocked
	gDone
)

type Goroutine struct {
	id     int
	frames []*Frame
	panic  *panicState
	status gStatus
	// blocking info
	waitOn   interface{}
	wake     Value // clock wake-up (nil = none)
	result   Value // return value of the root function
	vc       []int // vector clock
	name     string
	waitKind int
	phase    int
	phaseVal uint64
	selDirs  []bool
	yielded  bool
	pendObj  *Obj
	pendWrite bool
	vcm      vclock
}

type endKind int

const (
	endNone endKind = iota
	endReturn
	endAssumeFalse
	endPanic
	endUnsupported
	endUnwind
	endDeadlock
	endAssertStop
)

type status int

const (
	stNext status = iota
	stJumped
	stRetry
	stEnd
	stYield
	stFallback
)

type Alt struct {
	cond  *Term
	apply func()
	label string
}

type State struct {
	eng     *Engine
	tp      *TermPool
	solver  *Solver
	trail   []trailEnt
	trailOn bool
	pc      []*Term
	model   Model
	gs      []*Goroutine
	cur     int
	globals map[*ssa.Global]*Obj
	inited  map[*ssa.Package]bool
	nextObj int
	known   map[int]uint64 // concretized term values on this path
	draws   []Draw
	vars    []*Term

	pendingFork []Alt
	endReason   endKind
	endMsg      string

	initFailed map[*ssa.Package]string
	// intern tables
	uniq      map[string]Pointer
	errSent   map[string]Value
	opaqueCnt int
	funcIDs   map[*ssa.Function]int

	// clock
	now Value

	job   *Job
	steps int64
	depth int

	// refined unsigned bounds for terms on this path
	rb map[int][2]uint64

	sched       *Sched
	race        *raceState
	schedChoice map[string]int
	altModels   map[int]Model
	absSolver   *Solver      // abstracting twin of solver (floating-point arithmetic as free values), created on demand
	fpArith     map[int]bool // term id -> contains FP arithmetic
}

type Draw struct {
	Tag  string
	Kind string
	Term *Term
	N    int // for bytes: number of byte variables; vars are Tag#k.i
	Sub  []*Term
}

type unsupported struct{ msg string }

func (st *State) unsupported(format string, args ...interface{}) {
	panic(unsupported{fmt.Sprintf(format, args...)})
}

// ---------- memory ----------

func (st *State) newObj(n int, zeros []Value, name string) *Obj {
	o := &Obj{id: st.nextObj, name: name}
	st.nextObj++
	o.slots = make([]Value, n)
	copy(o.slots, zeros)
	if n > bigObj {
		o.dirty = map[int]struct{}{}
	}
	return o
}

const bigObj = 2048

func (st *State) allocType(t types.Type, name string) Pointer {
	l := st.eng.layout(t)
	o := st.newObj(l.n, l.zeros, name)
	return Pointer{obj: o}
}

func (st *State) setSlot(o *Obj, i int, v Value) {
	if o.dirty != nil {
		o.dirty[i] = struct{}{}
	}
	if st.trailOn {
		st.trail = append(st.trail, trailEnt{kind: tkSlot, obj: o, idx: i, old: o.slots[i]})
	}
	o.slots[i] = v
}

func (st *State) trailFunc(undo func()) {
	if st.trailOn {
		st.trail = append(st.trail, trailEnt{kind: tkFunc, undo: undo})
	}
}

func (st *State) undoTo(mark int) {
	for i := len(st.trail) - 1; i >= mark; i-- {
		e := &st.trail[i]
		if e.kind == tkSlot {
			e.obj.slots[e.idx] = e.old
		} else {
			e.undo()
		}
	}
	st.trail = st.trail[:mark]
}

func (e *Engine) layout(t types.Type) *Layout {
	if l, ok := e.layouts.Load(t); ok {
		return l.(*Layout)
	}
	st := &State{eng: e}
	l := st.computeLayout(t)
	e.layouts.Store(t, l)
	return l
}

func (st *State) global(g *ssa.Global) *Obj {
	if o, ok := st.globals[g]; ok {
		return o
	}
	et := g.Type().(*types.Pointer).Elem()
	l := st.eng.layout(et)
	o := st.newObj(l.n, l.zeros, g.String())
	o.shared = true
	st.globals[g] = o
	return o
}

type goPanic struct {
	msg string
	val Value
}

func (st *State) rtPanic(msg string) {
	panic(goPanic{msg: msg, val: Iface{typ: types.Typ[types.String], val: "runtime error: " + msg}})
}

// candidates returns the list of candidate element indices for a symbolic pointer, filtered by cheap bounds.
func (st *State) ptrCandidates(p Pointer) (int, int) {
	lo, hi := st.boundsOf(p.sidx)
	cLo, cHi := p.cLo, p.cHi
	if lo > uint64(cLo) && lo < uint64(1<<40) {
		cLo = int(lo)
	}
	if hi < uint64(cHi) {
		cHi = int(hi) + 1
	}
	if cHi < cLo {
		cHi = cLo
	}
	return cLo, cHi
}

func (st *State) loadSlot(p Pointer, k int, lt types.Type) Value {
	if p.sidx == nil {
		return p.obj.slots[p.off+k]
	}
	cLo, cHi := st.ptrCandidates(p)
	if cHi-cLo <= 0 {
		st.unsupported("symbolic load with empty candidate range")
	}
	// group by value
	type cand struct {
		e int
		v Value
	}
	var cands []cand
	if p.obj.dirty != nil && cHi-cLo > 64 {
		// sparse object: only written cells can differ from the zero value
		var defv Value
		defFound := false
		es := make([]int, 0, len(p.obj.dirty))
		for pos := range p.obj.dirty {
			d := pos - p.off - k
			if d < 0 || d%p.stride != 0 {
				continue
			}
			e := d / p.stride
			if e >= cLo && e < cHi {
				es = append(es, e)
			}
		}
		sort.Ints(es)
		if len(es) < cHi-cLo {
			// find an unwritten cell for the default
			for e := cLo; e < cHi; e++ {
				pos := p.off + e*p.stride + k
				if _, w := p.obj.dirty[pos]; !w && pos < len(p.obj.slots) {
					defv, defFound = p.obj.slots[pos], true
					break
				}
			}
		}
		for _, e := range es {
			cands = append(cands, cand{e, p.obj.slots[p.off+e*p.stride+k]})
		}
		if defFound {
			cands = append(cands, cand{-1, defv})
		}
	} else {
		cands = make([]cand, 0, cHi-cLo)
		for e := cLo; e < cHi; e++ {
			pos := p.off + e*p.stride + k
			if pos < 0 || pos >= len(p.obj.slots) {
				continue
			}
			cands = append(cands, cand{e, p.obj.slots[pos]})
		}
	}
	if len(cands) == 0 {
		st.unsupported("symbolic load: no candidates")
	}
	// pick default = most common (by sameValue, cheap heuristic: compare to first and last)
	def := cands[len(cands)-1].v
	cnt := map[Value]int{}
	for _, c := range cands {
		if hashable(c.v) {
			cnt[c.v]++
		}
	}
	best := 0
	for v, n := range cnt {
		if n > best {
			best, def = n, v
		}
	}
	if len(cands) > 0 && cands[len(cands)-1].e == -1 {
		def = cands[len(cands)-1].v // sparse default covers every unwritten cell
		cands = cands[:len(cands)-1]
	}
	res := def
	for i := len(cands) - 1; i >= 0; i-- {
		c := cands[i]
		if sameValue(c.v, def) {
			continue
		}
		cond := st.tp.Eq(p.sidx, st.tp.BVConst(64, uint64(c.e)))
		m, ok := st.mergeTyped(cond, c.v, res, lt)
		if !ok {
			panic(needConcrete{p.sidx})
		}
		res = m
	}
	return res
}

type needConcrete struct{ t *Term }

func hashable(v Value) bool {
	switch v.(type) {
	case uint64, bool, float64, string, *Term, *MapObj, *ChanObj, *Closure, Pointer:
		return true
	}
	return false
}

func sameValue(a, b Value) bool {
	switch x := a.(type) {
	case uint64:
		y, ok := b.(uint64)
		return ok && x == y
	case bool:
		y, ok := b.(bool)
		return ok && x == y
	case float64:
		y, ok := b.(float64)
		return ok && (x == y || (x != x && y != y))
	case string:
		y, ok := b.(string)
		return ok && x == y
	case *Term:
		y, ok := b.(*Term)
		return ok && x == y
	case Pointer:
		y, ok := b.(Pointer)
		return ok && x == y
	case Slice:
		y, ok := b.(Slice)
		if !ok {
			return false
		}
		return x.obj == y.obj && x.off == y.off && x.cap == y.cap && x.esz == y.esz && x.nil_ == y.nil_ && sameValue(x.len, y.len)
	case Iface:
		y, ok := b.(Iface)
		if !ok {
			return false
		}
		if x.typ == nil || y.typ == nil {
			return x.typ == nil && y.typ == nil
		}
		return types.Identical(x.typ, y.typ) && sameValue(x.val, y.val)
	case Agg:
		y, ok := b.(Agg)
		if !ok || len(x) != len(y) {
			return false
		}
		for i := range x {
			if !sameValue(x[i], y[i]) {
				return false
			}
		}
		return true
	case *Closure:
		y, ok := b.(*Closure)
		return ok && x == y
	case *MapObj:
		y, ok := b.(*MapObj)
		return ok && x == y
	case *ChanObj:
		y, ok := b.(*ChanObj)
		return ok && x == y
	case *SymStr:
		y, ok := b.(*SymStr)
		if !ok || len(x.b) != len(y.b) {
			return false
		}
		for i := range x.b {
			if !sameValue(x.b[i], y.b[i]) {
				return false
			}
		}
		return true
	case nil:
		return b == nil
	}
	return false
}

// mergeValues builds ite(cond, a, b) when representable.
func (st *State) mergeValues(cond *Term, a, b Value) (Value, bool) {
	if sameValue(a, b) {
		return a, true
	}
	ta, aSym := a.(*Term)
	tb, bSym := b.(*Term)
	switch {
	case aSym && bSym:
		if ta.sort != tb.sort {
			return nil, false
		}
		return st.tp.Ite(cond, ta, tb), true
	case aSym:
		t2, ok := st.constLike(b, ta.sort)
		if !ok {
			return nil, false
		}
		return st.tp.Ite(cond, ta, t2), true
	case bSym:
		t1, ok := st.constLike(a, tb.sort)
		if !ok {
			return nil, false
		}
		return st.tp.Ite(cond, t1, tb), true
	}
	switch x := a.(type) {
	case uint64:
		y, ok := b.(uint64)
		if !ok {
			return nil, false
		}
		// width unknown: use 64 and rely on later resize? we need exact width; choose minimal common width class
		_ = y
		return nil, false
	case bool:
		y, ok := b.(bool)
		if !ok {
			return nil, false
		}
		return st.tp.Ite(cond, st.tp.Bool(x), st.tp.Bool(y)), true
	case Agg:
		y, ok := b.(Agg)
		if !ok || len(x) != len(y) {
			return nil, false
		}
		out := make(Agg, len(x))
		for i := range x {
			m, ok := st.mergeValues(cond, x[i], y[i])
			if !ok {
				return nil, false
			}
			out[i] = m
		}
		return out, true
	case Slice:
		y, ok := b.(Slice)
		if !ok || x.obj != y.obj || x.off != y.off || x.cap != y.cap || x.esz != y.esz || x.nil_ != y.nil_ {
			return nil, false
		}
		l, ok := st.mergeTyped(cond, x.len, y.len, types.Typ[types.Int])
		if !ok {
			return nil, false
		}
		x.len = l
		return x, true
	}
	return nil, false
}

// mergeTyped merges two scalar values of a known type.
func (st *State) mergeTyped(cond *Term, a, b Value, t types.Type) (Value, bool) {
	if sameValue(a, b) {
		return a, true
	}
	if isAggType(t) {
		x, ok1 := a.(Agg)
		y, ok2 := b.(Agg)
		if !ok1 || !ok2 {
			return nil, false
		}
		l := st.eng.layout(t)
		out := make(Agg, len(x))
		for i := range x {
			m, ok := st.mergeTyped(cond, x[i], y[i], l.leaf[i])
			if !ok {
				return nil, false
			}
			out[i] = m
		}
		return out, true
	}
	if _, _, ok := intInfo(t); ok {
		return st.tp.Ite(cond, st.toTerm(a, t), st.toTerm(b, t)), true
	}
	if isBool(t) {
		return st.tp.Ite(cond, st.boolTerm(a), st.boolTerm(b)), true
	}
	if _, ok := floatWidth(t); ok {
		return st.tp.Ite(cond, st.toTerm(a, t), st.toTerm(b, t)), true
	}
	return st.mergeValues(cond, a, b)
}

func (st *State) constLike(v Value, s Sort) (*Term, bool) {
	switch x := v.(type) {
	case uint64:
		if s.K == KBV {
			return st.tp.BVConst(s.W, x), true
		}
	case bool:
		if s.K == KBool {
			return st.tp.Bool(x), true
		}
	case float64:
		if s.K == KFP {
			return st.tp.FPConst(s.W, x), true
		}
	}
	return nil, false
}

func (st *State) load(p Pointer, t types.Type) Value {
	if p.obj == nil {
		st.rtPanic("invalid memory address or nil pointer dereference")
	}
	l := st.eng.layout(t)
	p = st.normPtr(p)
	st.raceAccess(p, l.n, false)
	if !l.agg {
		if p.sidx == nil {
			if p.off >= len(p.obj.slots) {
				st.unsupported("load out of object %s off %d", p.obj.name, p.off)
			}
			return p.obj.slots[p.off]
		}
		v := st.loadSlot(p, 0, t)
		return v
	}
	a := make(Agg, l.n)
	if p.sidx == nil {
		if p.off+l.n > len(p.obj.slots) {
			st.unsupported("load of %v (%d slots) beyond object %s (%d slots): pointer cast not modelled", t, l.n, p.obj.name, len(p.obj.slots))
		}
		copy(a, p.obj.slots[p.off:p.off+l.n])
		return a
	}
	for k := 0; k < l.n; k++ {
		a[k] = st.loadSlot(p, k, l.leaf[k])
	}
	return a
}

// normPtr resolves a symbolic index that has been concretized on this path.
func (st *State) normPtr(p Pointer) Pointer {
	if p.sidx != nil {
		if k, ok := st.known[p.sidx.id]; ok {
			p.off += int(k) * p.stride
			p.sidx = nil
		}
	}
	return p
}

func (st *State) storeSlotSym(p Pointer, k int, v Value, lt types.Type) {
	cLo, cHi := st.ptrCandidates(p)
	for e := cLo; e < cHi; e++ {
		pos := p.off + e*p.stride + k
		if pos < 0 || pos >= len(p.obj.slots) {
			continue
		}
		cond := st.tp.Eq(p.sidx, st.tp.BVConst(64, uint64(e)))
		m, ok := st.mergeTyped(cond, v, p.obj.slots[pos], lt)
		if !ok {
			panic(needConcrete{p.sidx})
		}
		st.setSlot(p.obj, pos, m)
	}
}

func (st *State) store(p Pointer, t types.Type, v Value) {
	if p.obj == nil {
		st.rtPanic("invalid memory address or nil pointer dereference")
	}
	l := st.eng.layout(t)
	p = st.normPtr(p)
	st.raceAccess(p, l.n, true)
	if !l.agg {
		if p.sidx == nil {
			st.setSlot(p.obj, p.off, v)
		} else {
			st.storeSlotSym(p, 0, v, t)
		}
		return
	}
	a, ok := v.(Agg)
	if !ok {
		panic(fmt.Sprintf("store agg: got %T for %v", v, t))
	}
	if len(a) != l.n {
		panic(fmt.Sprintf("store agg: len %d want %d (%v)", len(a), l.n, t))
	}
	if p.sidx == nil {
		if p.off+l.n > len(p.obj.slots) {
			st.unsupported("store of %v beyond object %s: pointer cast not modelled", t, p.obj.name)
		}
		for k := 0; k < l.n; k++ {
			st.setSlot(p.obj, p.off+k, a[k])
		}
		return
	}
	for k := 0; k < l.n; k++ {
		st.storeSlotSym(p, k, a[k], l.leaf[k])
	}
}

// ---------- operands ----------

func (st *State) constValue(c *ssa.Const) Value {
	t := c.Type()
	if c.Value == nil {
		return st.zero(t)
	}
	if tp, ok := t.(*types.TypeParam); ok {
		_ = tp
		st.unsupported("const of type param")
	}
	switch u := t.Underlying().(type) {
	case *types.Basic:
		switch {
		case u.Info()&types.IsBoolean != 0:
			return constant.BoolVal(c.Value)
		case u.Info()&types.IsInteger != 0:
			w, _, _ := intInfo(t)
			if i, ok := constant.Int64Val(constant.ToInt(c.Value)); ok {
				return uint64(i) & mask(w)
			}
			if i, ok := constant.Uint64Val(constant.ToInt(c.Value)); ok {
				return i & mask(w)
			}
			st.unsupported("const int out of range")
		case u.Info()&types.IsFloat != 0:
			f, _ := constant.Float64Val(c.Value)
			if u.Kind() == types.Float32 {
				return float64(float32(f))
			}
			return f
		case u.Info()&types.IsString != 0:
			if c.Value.Kind() == constant.String {
				return constant.StringVal(c.Value)
			}
			// string(int) constant
			i, _ := constant.Int64Val(c.Value)
			return string(rune(i))
		}
	case *types.Interface:
		// typed const converted to interface? shouldn't happen
	}
	st.unsupported("const %v of type %v", c, t)
	return nil
}

func (st *State) get(fr *Frame, v ssa.Value) Value {
	switch x := v.(type) {
	case *ssa.Const:
		return st.constValue(x)
	case *ssa.Global:
		st.ensureInit(x.Pkg)
		return Pointer{obj: st.global(x)}
	case *ssa.Function:
		return st.funcValue(x)
	case *ssa.Builtin:
		return &Closure{native: "builtin:" + x.Name()}
	}
	i, ok := fr.fi.idx[v]
	if !ok {
		panic(fmt.Sprintf("no register for %v (%T) in %v", v.Name(), v, fr.fn))
	}
	return fr.regs[i]
}

func (st *State) funcValue(fn *ssa.Function) *Closure {
	if st.funcIDs == nil {
		st.funcIDs = map[*ssa.Function]int{}
	}
	return &Closure{fn: fn}
}

func (st *State) set(fr *Frame, v ssa.Value, val Value) {
	fr.regs[fr.fi.idx[v]] = val
}

// ---------- package init ----------

var initSkip = map[string]bool{
	"runtime": true, "errors": true, "net/netip": false, "vendor/golang.org/x/net/http/httpguts": false, "os": true, "syscall": true, "net": false, "time": true, "reflect": true,
	"sync": true, "sync/atomic": true, "unsafe": true, "fmt": true, "log": true, "io": true, "bufio": true,
	"unicode": true, "strings": false, "bytes": false, "context": true, "math/rand": true, "math/rand/v2": true,
	"net/http": false, "encoding/json": true, "crypto/rand": true, "os/signal": true, "io/fs": true, "path/filepath": true,
	"internal/poll": true, "internal/testlog": true, "internal/godebug": true, "unique": true, "internal/cpu": true,
	"golang.org/x/sys/unix": true, "golang.org/x/sys/cpu": true, "runtime/debug": true, "internal/bytealg": true,
	"net/url": false, "mime": true, "mime/multipart": true, "crypto/tls": true, "crypto/x509": true, "html": true,
	"text/template": true, "html/template": true, "regexp": true, "regexp/syntax": true, "os/exec": true, "os/user": true,
	"expvar": true, "net/http/httptrace": true, "net/http/internal": true, "net/textproto": true, "compress/gzip": true,
	"compress/flate": true, "hash/crc32": true, "vendor/golang.org/x/net/http2/hpack": true, "log/slog": true,
	"github.com/spf13/cobra": true, "github.com/spf13/pflag": true, "encoding/gob": true, "encoding/xml": true,
	"go/token": true, "flag": true, "testing": true, "internal/reflectlite": true, "internal/abi": true,
	"github.com/vishvananda/netlink": true, "github.com/vishvananda/netns": true, "github.com/vishvananda/netlink/nl": true,
	"golang.org/x/net/internal/socket": true, "unicode/utf8": false, "math/big": true, "encoding/asn1": true,
	"github.com/google/uuid": true, "internal/syscall/unix": true, "internal/oserror": false, "internal/itoa": false,
	"text/tabwriter": true, "runtime/pprof": true, "runtime/trace": true, "internal/singleflight": true,
	"golang.org/x/net/ipv4": false, "golang.org/x/net/ipv6": false, "golang.org/x/net/bpf": false,
}

func skipInit(path string) bool {
	if v, ok := initSkip[path]; ok {
		return v
	}
	if strings.HasPrefix(path, "crypto/") || strings.HasPrefix(path, "vendor/") || strings.HasPrefix(path, "internal/") ||
		strings.HasPrefix(path, "runtime/") || strings.HasPrefix(path, "go.opentelemetry") || strings.HasPrefix(path, "github.com/prometheus") ||
		strings.HasPrefix(path, "go.uber.org") || strings.HasPrefix(path, "google.golang.org") || strings.HasPrefix(path, "github.com/DataDog/datadog-agent") ||
		strings.HasPrefix(path, "github.com/stretchr") || strings.HasPrefix(path, "github.com/golang/mock") || strings.HasPrefix(path, "gopkg.in") ||
		strings.HasPrefix(path, "hash/") || strings.HasPrefix(path, "compress/") || strings.HasPrefix(path, "net/") || strings.HasPrefix(path, "os/") ||
		strings.HasPrefix(path, "go/") || strings.HasPrefix(path, "text/") || strings.HasPrefix(path, "github.com/cihub") || strings.HasPrefix(path, "golang.org/x/sys") ||
		strings.HasPrefix(path, "golang.org/x/text") || strings.HasPrefix(path, "golang.org/x/crypto") || strings.HasPrefix(path, "debug/") || strings.HasPrefix(path, "image") ||
		strings.HasPrefix(path, "database/") || strings.HasPrefix(path, "archive/") || strings.HasPrefix(path, "container/") || strings.HasPrefix(path, "embed") {
		return true
	}
	return false
}

func (st *State) ensureInit(p *ssa.Package) {
	if p == nil || st.inited[p] {
		return
	}
	st.inited[p] = true
	path := p.Pkg.Path()
	if skipInit(path) {
		return
	}
	for _, imp := range p.Pkg.Imports() {
		if ip := st.eng.prog.Package(imp); ip != nil {
			st.ensureInit(ip)
		}
	}
	initFn := p.Func("init")
	if initFn == nil || len(initFn.Blocks) == 0 {
		return
	}
	if st.eng.verbose > 1 {
		fmt.Printf("[init] %s\n", path)
	}
	func() {
		defer func() {
			if r := recover(); r != nil {
				if u, ok := r.(unsupported); ok {
					st.initFailed[p] = u.msg
					if st.eng.verbose > 0 {
						fmt.Printf("[init] %s incomplete: %s\n", path, u.msg)
					}
					return
				}
				panic(r)
			}
		}()
		st.runIsolated(initFn, nil)
	}()
}

// sentinelFor manufactures a unique error object for an error-typed global of a package whose
// initializer was not (fully) executed. Identity is all errors.Is needs.
func (st *State) sentinelFor(g *ssa.Global) (Value, bool) {
	if g.Pkg == nil {
		return nil, false
	}
	_, failed := st.initFailed[g.Pkg]
	if !failed && !skipInit(g.Pkg.Pkg.Path()) {
		return nil, false
	}
	et := g.Type().(*types.Pointer).Elem()
	if it, ok := et.Underlying().(*types.Interface); !ok || it.NumMethods() != 1 || it.Method(0).Name() != "Error" {
		return nil, false
	}
	if v, ok := st.errSent[g.String()]; ok {
		return v, true
	}
	t := st.eng.prog.ImportedPackage("errors").Type("errorString").Type()
	p := st.allocType(t, "sentinel:"+g.String())
	p.obj.slots[0] = "sentinel " + g.String()
	v := Iface{typ: types.NewPointer(t), val: p}
	st.errSent[g.String()] = v
	o := st.global(g)
	o.slots[0] = v
	return v, true
}

// ensureInitFromCall handles a package initializer calling an imported package's init.
func (st *State) ensureInitFromCall(p *ssa.Package) {
	if st.inited[p] {
		return
	}
	if st.trailOn {
		// should not happen: all inits run before exploration or lazily via ensureInit
		st.ensureInit(p)
		return
	}
	st.ensureInit(p)
}

// runIsolated runs fn to completion on a temporary goroutine with trailing disabled.
// Used for package initialisers (deterministic, path independent).
func (st *State) runIsolated(fn *ssa.Function, args []Value) Value {
	savedGs, savedCur, savedTrail := st.gs, st.cur, st.trailOn
	savedFork, savedEnd := st.pendingFork, st.endReason
	g := &Goroutine{id: -1, name: "init"}
	st.gs = []*Goroutine{g}
	st.cur = 0
	st.trailOn = false
	st.pushFrame(g, fn, args, nil, -1)
	for {
		s := st.runUntilEvent()
		if s == evDone {
			break
		}
		if s == evFork {
			st.gs, st.cur, st.trailOn = savedGs, savedCur, savedTrail
			panic(unsupported{"fork inside isolated run of " + fn.String()})
		}
		if s == evEnd {
			msg := st.endMsg
			st.gs, st.cur, st.trailOn = savedGs, savedCur, savedTrail
			panic(unsupported{"isolated run of " + fn.String() + " ended: " + msg})
		}
	}
	res := g.result
	st.gs, st.cur, st.trailOn = savedGs, savedCur, savedTrail
	st.pendingFork, st.endReason = savedFork, savedEnd
	return res
}

// ---------- frames ----------

func (st *State) pushFrame(g *Goroutine, fn *ssa.Function, args []Value, env []Value, resultReg int) *Frame {
	if len(fn.Blocks) == 0 {
		st.unsupported("call to function without body: %s", fn.String())
	}
	if len(g.frames) > 400 {
		st.unsupported("call stack too deep at %s", fn.String())
	}
	fi := st.eng.funcInfo(fn)
	fr := &Frame{fn: fn, fi: fi, regs: make([]Value, fi.nregs), block: fn.Blocks[0], resultReg: resultReg}
	if len(args) != len(fn.Params) {
		panic(fmt.Sprintf("arg count mismatch calling %s: %d vs %d", fn, len(args), len(fn.Params)))
	}
	copy(fr.regs, args)
	copy(fr.regs[len(args):], env)
	g.frames = append(g.frames, fr)
	return fr
}

type event int

const (
	evDone event = iota // current goroutine finished its root function
	evFork
	evEnd
	evYield
)

func (st *State) curG() *Goroutine { return st.gs[st.cur] }

const maxBlockVisits = 3000

// runUntilEvent executes the current goroutine until something interesting happens.
func (st *State) runUntilEvent() (ev event) {
	g := st.curG()
	for {
		if len(g.frames) == 0 {
			g.status = gDone
			return evDone
		}
		fr := g.frames[len(g.frames)-1]
		if fr.unwinding {
			s := st.protect(func() status { return st.continueUnwind(g) })
			if s == stEnd {
				return evEnd
			}
			continue
		}
		if fr.ip >= len(fr.block.Instrs) {
			panic("fell off block in " + fr.fn.String())
		}
		in := fr.block.Instrs[fr.ip]
		st.steps++
		if st.job != nil && st.steps > st.job.maxSteps {
			st.endReason, st.endMsg = endUnwind, fmt.Sprintf("step budget exceeded (%d) in %s", st.steps, fr.fn)
			return evEnd
		}
		s := st.protect(func() status { return st.exec(g, fr, in) })
		switch s {
		case stNext:
			fr.ip++
		case stJumped:
		case stRetry:
			if st.pendingFork != nil {
				return evFork
			}
		case stEnd:
			return evEnd
		case stYield:
			return evYield
		}
		if st.pendingFork != nil {
			return evFork
		}
	}
}

// protect converts interpreter panics into path events.
func (st *State) protect(f func() status) (s status) {
	defer func() {
		if r := recover(); r != nil {
			switch x := r.(type) {
			case unsupported:
				st.endReason, st.endMsg = endUnsupported, x.msg+" @ "+st.where()
				s = stEnd
			case goPanic:
				x.msg += " @ " + st.where()
				s = st.startPanic(x)
			case needConcrete:
				s = st.concretize(x.t)
			case forkRequest:
				st.pendingFork = x.alts
				s = stRetry
			case pathInfeasible:
				st.endReason, st.endMsg = endAssumeFalse, "path condition became infeasible"
				s = stEnd
			case unwindFailure:
				st.endReason, st.endMsg = endUnwind, x.msg
				s = stEnd
			default:
				panic(r)
			}
		}
	}()
	return f()
}

func (st *State) where() string {
	g := st.curG()
	var sb strings.Builder
	for i := len(g.frames) - 1; i >= 0 && i >= len(g.frames)-6; i-- {
		fr := g.frames[i]
		pos := token.NoPos
		if fr.ip < len(fr.block.Instrs) {
			pos = fr.block.Instrs[fr.ip].Pos()
		}
		p := st.eng.prog.Fset.Position(pos)
		fmt.Fprintf(&sb, "%s(%s:%d) <- ", fr.fn.String(), shortFile(p.Filename), p.Line)
	}
	return sb.String()
}

func (st *State) whereShort() string {
	g := st.curG()
	if len(g.frames) == 0 {
		return "?"
	}
	fr := g.frames[len(g.frames)-1]
	pos := token.NoPos
	if fr.ip < len(fr.block.Instrs) {
		pos = fr.block.Instrs[fr.ip].Pos()
	}
	p := st.eng.prog.Fset.Position(pos)
	return fmt.Sprintf("%s(%s:%d)", fr.fn.String(), shortFile(p.Filename), p.Line)
}

func shortFile(f string) string {
	if i := strings.LastIndex(f, "/"); i >= 0 {
		return f[i+1:]
	}
	return f
}

// ---------- panics and defers ----------

func (st *State) startPanic(p goPanic) status {
	g := st.curG()
	g.panic = &panicState{val: p.val, msg: p.msg}
	if len(g.frames) == 0 {
		st.endReason, st.endMsg = endPanic, p.msg
		return stEnd
	}
	g.frames[len(g.frames)-1].unwinding = true
	return stJumped
}

func (st *State) continueUnwind(g *Goroutine) status {
	fr := g.frames[len(g.frames)-1]
	if g.panic == nil || g.panic.recovered {
		// recovered: function returns normally via its Recover block
		g.panic = nil
		fr.unwinding = false
		if len(fr.defers) > 0 {
			// remaining defers still need to run
			d := fr.defers[len(fr.defers)-1]
			fr.defers = fr.defers[:len(fr.defers)-1]
			fr.unwinding = true
			g.panic = &panicState{recovered: true}
			s := st.invoke(g, fr, d.fn, d.args, -1, true)
			if s == stRetry || s == stYield {
				fr.defers = append(fr.defers, d)
			}
			return s
		}
		if fr.fn.Recover != nil {
			fr.prev = fr.block
			fr.block = fr.fn.Recover
			fr.ip = 0
			return stJumped
		}
		// no recover block: return zero values
		st.doReturn(g, fr, st.zeroResults(fr.fn))
		return stJumped
	}
	if len(fr.defers) > 0 {
		d := fr.defers[len(fr.defers)-1]
		fr.defers = fr.defers[:len(fr.defers)-1]
		s := st.invoke(g, fr, d.fn, d.args, -1, true)
		if s == stRetry || s == stYield {
			fr.defers = append(fr.defers, d)
		}
		return s
	}
	// pop frame and continue in caller
	g.frames = g.frames[:len(g.frames)-1]
	if len(g.frames) == 0 {
		st.endReason, st.endMsg = endPanic, g.panic.msg
		return stEnd
	}
	g.frames[len(g.frames)-1].unwinding = true
	return stJumped
}

func (st *State) zeroResults(fn *ssa.Function) Value {
	res := fn.Signature.Results()
	switch res.Len() {
	case 0:
		return nil
	case 1:
		return st.zero(res.At(0).Type())
	}
	t := make(Tuple, res.Len())
	for i := range t {
		t[i] = st.zero(res.At(i).Type())
	}
	return t
}

func (st *State) doReturn(g *Goroutine, fr *Frame, val Value) {
	g.frames = g.frames[:len(g.frames)-1]
	if len(g.frames) == 0 {
		g.result = val
		return
	}
	caller := g.frames[len(g.frames)-1]
	if caller.unwinding {
		return // deferred call finished during unwinding
	}
	if fr.isDefer {
		// deferred call from RunDefers: re-execute RunDefers (ip not advanced)
		return
	}
	if fr.resultReg >= 0 {
		caller.regs[fr.resultReg] = val
	}
	caller.ip++
}

// invoke calls a function value. If asDefer, the result is discarded and the caller's ip is not advanced on return.
func (st *State) invoke(g *Goroutine, fr *Frame, fv Value, args []Value, resultReg int, asDefer bool) status {
	cl, ok := fv.(*Closure)
	if !ok || cl == nil {
		st.rtPanic("call of nil function")
	}
	if cl.fn == nil {
		// native / builtin closure
		res, s := st.callNativeByName(g, fr, cl, args)
		if s == stRetry || s == stEnd || s == stYield {
			return s
		}
		if asDefer {
			return stJumped
		}
		if resultReg >= 0 {
			fr.regs[resultReg] = res
		}
		return stNext
	}
	fn := cl.fn
	if res, s, handled := st.tryNative(g, fr, fn, args); handled {
		if s == stRetry || s == stEnd || s == stYield {
			return s
		}
		if asDefer {
			return stJumped
		}
		if s == stJumped {
			return stJumped
		}
		if resultReg >= 0 {
			fr.regs[resultReg] = res
		}
		return stNext
	}
	st.ensureInit(fn.Pkg)
	nf := st.pushFrame(g, fn, args, cl.env, resultReg)
	nf.isDefer = asDefer
	return stJumped
}
