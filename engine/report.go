package main

import (
	"fmt"
	"time"
)

func finishCheck(e *Engine, spec *CheckSpec, tier string, ts TierSpec, jobs []*Job, known []KnownFinding, evidencePath, replayDir, repo, hdir string, noReplay bool, t0 time.Time, loadS float64) int {
	for _, j := range jobs {
		fmt.Printf("%+v\n", j.report())
	}
	return 0
}
