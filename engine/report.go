package main

import (
	"encoding/json"
	"fmt"
	"os"
	"os/exec"
	"path/filepath"
	"sort"
	"strings"
	"time"
)

type replayFileOut struct {
	Harness string            `json:"harness"`
	Label   string            `json:"label"`
	Kind    string            `json:"kind"`
	Params  map[string]string `json:"params"`
	Draws   []DrawValue       `json:"draws"`
	KFOpen  []string          `json:"kf_open"`
}

type replayResult struct {
	Harness  string   `json:"harness"`
	Failed   []string `json:"failed"`
	Known    []string `json:"known"`
	Reached  []string `json:"reached"`
	Diverged string   `json:"diverged,omitempty"`
	Panic    string   `json:"panic,omitempty"`
	Missing  bool     `json:"missing_harness,omitempty"`
}

type pendingReplay struct {
	file   string
	pkg    string
	label  string
	kind   string // assert|panic|fail|reach|deadlock
	isViol bool
	viol   *Violation
	res    *replayResult
	err    string
}

func sanitize(s string) string {
	r := strings.NewReplacer("/", "_", " ", "_", ":", "_", "(", "", ")", "", "*", "", "\"", "")
	s = r.Replace(s)
	if len(s) > 80 {
		s = s[:80]
	}
	return s
}

// harnessFuncs lists the Verif_ functions of each instrumented package (for the generated replay test).
func (e *Engine) harnessFuncs() map[string][]string {
	out := map[string][]string{}
	for _, p := range e.pkgs {
		path := p.Pkg.Path()
		if !strings.HasPrefix(path, modPath) || path == verifPkg {
			continue
		}
		rel := strings.TrimPrefix(strings.TrimPrefix(path, modPath), "/")
		if rel == "" {
			rel = "."
		}
		for name, m := range p.Members {
			if strings.HasPrefix(name, "Verif_") {
				if _, ok := m.(interface{ Name() string }); ok {
					out[rel] = append(out[rel], name)
				}
			}
		}
		sort.Strings(out[rel])
	}
	return out
}

// runReplays executes the replay files natively: one `go test -overlay` per package.
func runReplays(e *Engine, repo, hdir string, reps []*pendingReplay) {
	if len(reps) == 0 {
		return
	}
	tmp, err := os.MkdirTemp("", "symgo-replay-")
	if err != nil {
		for _, r := range reps {
			r.err = err.Error()
		}
		return
	}
	defer os.RemoveAll(tmp)
	os.Setenv("VERIF_SEAM_DIR", tmp)
	_, _, files, err := buildOverlay(repo, hdir)
	os.Unsetenv("VERIF_SEAM_DIR")
	if err != nil {
		for _, r := range reps {
			r.err = err.Error()
		}
		return
	}
	byPkg := map[string][]*pendingReplay{}
	for _, r := range reps {
		byPkg[r.pkg] = append(byPkg[r.pkg], r)
	}
	hf := e.harnessFuncs()
	for pkg, rs := range byPkg {
		replace := map[string]string{}
		for v, real := range files {
			replace[v] = real
		}
		// generated test file
		pkgName := ""
		if sp := e.prog.ImportedPackage(modPath + "/" + pkg); sp != nil {
			pkgName = sp.Pkg.Name()
		} else if pkg == "." {
			pkgName = e.prog.ImportedPackage(modPath).Pkg.Name()
		}
		var sb strings.Builder
		fmt.Fprintf(&sb, "package %s\n\nimport (\n\t\"testing\"\n\n\tV \"%s\"\n)\n\n", pkgName, verifPkg)
		sb.WriteString("func TestVerifReplay(t *testing.T) {\n\tV.ReplayAll(t, map[string]func(){\n")
		for _, f := range hf[pkg] {
			fmt.Fprintf(&sb, "\t\t%q: %s,\n", f, f)
		}
		sb.WriteString("\t})\n}\n")
		tf := filepath.Join(tmp, sanitize(pkg)+"_replay_test.go")
		os.WriteFile(tf, []byte(sb.String()), 0o644)
		replace[filepath.Join(repo, pkg, "zz_verif_replay_test.go")] = tf
		// randomness: the symbolic run treats math/rand draws as solver variables; the native replay must see the
		// model's values, so the package's own calls to rand.Uint32() are routed to the replay file (source rewrite
		// of a temporary copy, applied through the overlay; /repo is untouched).
		if ents, err := os.ReadDir(filepath.Join(repo, pkg)); err == nil {
			for _, ent := range ents {
				n := ent.Name()
				if ent.IsDir() || !strings.HasSuffix(n, ".go") || strings.HasSuffix(n, "_test.go") {
					continue
				}
				srcPath := filepath.Join(repo, pkg, n)
				if alt, ok := replace[srcPath]; ok {
					srcPath = alt
				}
				src, err := os.ReadFile(srcPath)
				if err != nil {
					continue
				}
				txt := string(src)
				changed := false
				if strings.Contains(txt, "rand.Uint32()") {
					txt = strings.ReplaceAll(txt, "rand.Uint32()", "zzverifrt.RandU32()") + "\nvar _ = rand.Uint32\n"
					changed = true
				}
				if strings.Contains(txt, "uuid.New()") {
					txt = strings.ReplaceAll(txt, "uuid.New()", "zzverifrt.UUIDNew()") + "\nvar _ = uuid.New\n"
					changed = true
				}
				// the virtual clock: drivers read time through the replay runtime so that RTT obligations replay exactly
				if strings.Contains(txt, "time.Now()") || strings.Contains(txt, "time.Since(") {
					txt = strings.ReplaceAll(txt, "time.Now()", "zzverifrt.TimeNow()")
					txt = strings.ReplaceAll(txt, "time.Since(", "zzverifrt.TimeSince(") + "\nvar _ = time.Now\n"
					changed = true
				}
				// the model socket behind SetBPFAndDrain (the symbolic run redirects these calls to the same functions)
				if pkg == "packets" && contains(hf[pkg], "Verif_C10_setbpf") && strings.Contains(txt, "syscall.Recvfrom(") {
					txt = strings.ReplaceAll(txt, "syscall.Recvfrom(", "vRecvfrom(")
					txt = strings.ReplaceAll(txt, "unix.SetsockoptSockFprog(", "vSetsockoptSockFprog(")
					txt = strings.ReplaceAll(txt, "syscall.SetsockoptInt(", "vSetsockoptInt(")
					if !changed {
						txt += "\nvar _ = zzverifrt.Bool\n"
					}
					changed = true
				}
				if !changed {
					continue
				}
				txt = strings.Replace(txt, "import (", "import (\n\tzzverifrt \""+verifPkg+"\"", 1)
				cp := filepath.Join(tmp, sanitize(pkg)+"_"+n)
				os.WriteFile(cp, []byte(txt), 0o644)
				replace[filepath.Join(repo, pkg, n)] = cp
			}
		}
		ovData, _ := json.Marshal(map[string]interface{}{"Replace": replace})
		ovPath := filepath.Join(tmp, sanitize(pkg)+"_ov.json")
		os.WriteFile(ovPath, ovData, 0o644)
		var names []string
		for _, r := range rs {
			names = append(names, r.file)
			os.Remove(r.file + ".out")
		}
		target := "./" + pkg
		cmd := exec.Command("go", "test", "-vet=off", "-count=1", "-timeout", "300s", "-run", "^TestVerifReplay$", "-overlay", ovPath, target)
		cmd.Dir = repo
		cmd.Env = append(os.Environ(), "GOFLAGS=-mod=mod", "GOPROXY=off", "VERIF_REPLAY_FILES="+strings.Join(names, ","))
		out, err := cmd.CombinedOutput()
		for _, r := range rs {
			data, rerr := os.ReadFile(r.file + ".out")
			if rerr != nil {
				msg := "native replay produced no outcome"
				if err != nil {
					msg += ": " + err.Error()
				}
				tail := string(out)
				if len(tail) > 1500 {
					tail = tail[len(tail)-1500:]
				}
				r.err = msg + "\n" + tail
				continue
			}
			var rr replayResult
			if jerr := json.Unmarshal(data, &rr); jerr != nil {
				r.err = jerr.Error()
				continue
			}
			r.res = &rr
			os.Remove(r.file + ".out")
		}
	}
}

func contains(l []string, s string) bool {
	for _, x := range l {
		if x == s {
			return true
		}
	}
	return false
}

func finishCheck(e *Engine, spec *CheckSpec, tier string, ts TierSpec, jobs []*Job, known []KnownFinding, evidencePath, replayDir, repo, hdir string, noReplay bool, t0 time.Time, loadS float64) int {
	prop := spec.Property
	var kfOpen []string
	kfWhat := map[string]string{}
	for _, k := range known {
		if k.Status == "open" {
			kfOpen = append(kfOpen, k.ID)
			kfWhat[k.ID] = k.What
		}
	}
	rdir := filepath.Join(replayDir, prop)
	os.MkdirAll(rdir, 0o755)
	// stale replay files of this tier
	if old, _ := filepath.Glob(filepath.Join(rdir, tier+"-*.json")); old != nil {
		for _, f := range old {
			os.Remove(f)
		}
	}
	var reps, unreplayed []*pendingReplay
	nrep := 0
	mkReplay := func(j *Job, spkg, label, kind string, draws []DrawValue, v *Violation) *pendingReplay {
		nrep++
		f := filepath.Join(rdir, fmt.Sprintf("%s-%s-%s-%d.json", tier, sanitize(j.Harness), sanitize(label), nrep))
		rf := replayFileOut{Harness: j.Harness, Label: label, Kind: kind, Params: j.Params, Draws: draws, KFOpen: kfOpen}
		data, _ := json.MarshalIndent(rf, "", " ")
		os.WriteFile(f, data, 0o644)
		return &pendingReplay{file: f, pkg: spkg, label: label, kind: kind, isViol: v != nil, viol: v}
	}
	for i, j := range jobs {
		spkg := ts.Jobs[i].Pkg
		if ts.Jobs[i].NoReplay {
			// schedule- and clock-dependent harnesses cannot be replayed with the native scheduler: violations are
			// reported from the symbolic trace, reach witnesses are not validated
			for vi := range j.violations {
				v := &j.violations[vi]
				pr := mkReplay(j, spkg, v.Label, v.Kind, v.Draws, v)
				pr.res = &replayResult{Failed: []string{v.Label}, Panic: "not replayed"}
				unreplayed = append(unreplayed, pr)
			}
			continue
		}
		for vi := range j.violations {
			v := &j.violations[vi]
			reps = append(reps, mkReplay(j, spkg, v.Label, v.Kind, v.Draws, v))
		}
		// reachability witnesses (vacuity guard + validation of the encoding against the implementation)
		labels := make([]string, 0, len(j.reach))
		for l := range j.reach {
			labels = append(labels, l)
		}
		sort.Strings(labels)
		for _, l := range labels {
			reps = append(reps, mkReplay(j, spkg, l, "reach", j.reach[l].Draws, nil))
		}
	}
	if !noReplay {
		runReplays(e, repo, hdir, reps)
	}
	reps = append(reps, unreplayed...)
	// ---- verdicts ----
	var violLines, knownLines, inconc []string
	validated := 0
	confirmedViol := 0
	for _, r := range reps {
		if noReplay {
			if r.isViol {
				violLines = append(violLines, fmt.Sprintf("VIOLATION property=%s replay=%s label=%s (not replayed)", prop, r.file, r.label))
				confirmedViol++
			}
			continue
		}
		if r.err != "" {
			inconc = append(inconc, "replay error for "+r.file+": "+r.err)
			continue
		}
		rr := r.res
		if rr.Diverged != "" {
			inconc = append(inconc, "ENCODING-DIVERGENCE "+r.file+": "+rr.Diverged)
			continue
		}
		if r.isViol {
			ok := false
			switch r.kind {
			case "panic":
				ok = rr.Panic != ""
			case "deadlock":
				ok = true // cannot be observed natively without hanging; reported as is
			default:
				ok = contains(rr.Failed, r.label)
			}
			if ok {
				if rr.Panic != "not replayed" {
					validated++
				}
				confirmedViol++
				violLines = append(violLines, fmt.Sprintf("VIOLATION property=%s replay=%s label=%s harness=%s", prop, r.file, r.label, r.viol.Harness))
			} else {
				inconc = append(inconc, fmt.Sprintf("ENCODING-DIVERGENCE %s: solver model for %s does not reproduce natively (failed=%v panic=%q)", r.file, r.label, rr.Failed, rr.Panic))
			}
		} else {
			if contains(rr.Reached, r.label) {
				validated++
				os.Remove(r.file) // witness validated; keep the directory small
			} else {
				inconc = append(inconc, fmt.Sprintf("ENCODING-DIVERGENCE %s: reach mark %s not hit natively (reached=%v panic=%q)", r.file, r.label, rr.Reached, rr.Panic))
			}
		}
	}
	knownSeen := map[string]int{}
	for _, j := range jobs {
		for k, n := range j.knownHits {
			knownSeen[k] += n
		}
		for _, m := range j.inconclusive {
			inconc = append(inconc, j.Harness+": "+m)
		}
		if j.paths["return"]+j.paths["assert-stop"]+j.paths["assume-false"] == 0 && len(j.inconclusive) == 0 {
			inconc = append(inconc, j.Harness+": no path completed")
		}
	}
	ks := make([]string, 0, len(knownSeen))
	for k := range knownSeen {
		ks = append(ks, k)
	}
	sort.Strings(ks)
	for _, k := range ks {
		knownLines = append(knownLines, fmt.Sprintf("KNOWN-FINDING: property=%s %s %s", prop, k, kfWhat[k]))
	}
	// ---- evidence ----
	states, transitions, nq := 0, 0, map[string]int{}
	symPaths := 0
	brute, quick := 0, 0
	var solverS, wallJobs float64
	funcs := map[string]int{}
	asserts := map[string]*AssertStat{}
	reachTotal := map[string]int{}
	var samples []interface{}
	var jobReports []jobReport
	for _, j := range jobs {
		rp := j.report()
		jobReports = append(jobReports, rp)
		for _, n := range j.paths {
			states += n
		}
		transitions += j.forks
		symPaths += j.symPaths
		brute += j.brute
		quick += j.quick
		nq["sat"] += j.nq[Sat]
		nq["unsat"] += j.nq[Unsat]
		nq["unknown"] += j.nq[Unknown]
		solverS += j.solveTime.Seconds()
		wallJobs += j.wall.Seconds()
		for f, n := range j.funcs {
			funcs[f] += n
		}
		for l, a := range j.asserts {
			t := asserts[l]
			if t == nil {
				t = &AssertStat{}
				asserts[l] = t
			}
			t.Proved += a.Proved
			t.Failed += a.Failed
			t.Unknown += a.Unknown
			t.Trivial += a.Trivial
		}
		for l, n := range j.reachCount {
			reachTotal[l] += n
		}
		if len(samples) < 6 {
			for l, d := range j.reach {
				samples = append(samples, map[string]interface{}{"harness": j.Harness, "params": j.Params, "reach_mark": l, "model": d.Draws})
				break
			}
		}
	}
	if len(samples) == 0 {
		samples = append(samples, map[string]interface{}{"note": "no reach mark recorded"})
	}
	var fl []string
	for f := range funcs {
		if !strings.HasPrefix(f, verifPkg) {
			fl = append(fl, f)
		}
	}
	sort.Strings(fl)
	if states < 1 {
		states = 1
	}
	if transitions < 1 {
		transitions = 1
	}
	seed := 0
	fmt.Sscan(os.Getenv("VERIF_SEED"), &seed)
	bounds := map[string]string{}
	for k, v := range spec.Bounds {
		bounds[k] = v
	}
	for k, v := range ts.Bounds {
		bounds[k] = v
	}
	ev := map[string]interface{}{
		"property_id": prop,
		"tier":        tier,
		"seed":        seed,
		"level":       "model_checking",
		"wall_s":      time.Since(t0).Seconds(),
		"violations":  confirmedViol,
		"assumptions": spec.Assumptions,
		"coverage": map[string]interface{}{
			"states":                        states,
			"transitions":                   transitions,
			"traces_validated_against_impl": validated,
			"samples":                       samples,
			"evaluations":                   nq["sat"] + nq["unsat"] + nq["unknown"],
			"distinct_nontrivial":           symPaths,
			"rule":                          "states = terminal symbolic paths of the real SSA explored by DFS; transitions = path forks; evaluations = feasibility/assertion queries discharged (solver or exhaustive enumeration of slices of <=16 bits); distinct_nontrivial = terminal paths whose path condition mentions at least one symbolic input (counted)",
			"exhaustive":                    false,
			"functions_encoded":             fl,
			"functions_encoded_count":       len(fl),
			"bounds":                        bounds,
			"outside_bounds":                spec.Outside,
			"queries":                       nq,
			"decided_by_enumeration":        brute,
			"decided_by_intervals":          quick,
			"solver_time_s":                 solverS,
			"load_and_ssa_build_s":          loadS,
			"job_cpu_wall_s":                wallJobs,
			"solvers":                       []string{"z3 5.1.0 (z3-new)", "cvc5 1.0"},
			"models_used":                   spec.Models,
			"assertions":                    asserts,
			"reach_marks":                   reachTotal,
			"known_findings_hit":            knownSeen,
			"inconclusive":                  inconc,
			"unwinding_limit_hit":           false,
			"jobs":                          jobReports,
		},
	}
	for _, m := range inconc {
		if strings.Contains(m, "unwinding") {
			ev["coverage"].(map[string]interface{})["unwinding_limit_hit"] = true
		}
	}
	if evidencePath != "" {
		os.MkdirAll(filepath.Dir(evidencePath), 0o755)
		data, _ := json.MarshalIndent(ev, "", " ")
		os.WriteFile(evidencePath, data, 0o644)
	}
	// ---- output ----
	for _, l := range knownLines {
		fmt.Println(l)
	}
	for _, l := range violLines {
		fmt.Println(l)
	}
	fmt.Printf("%s %s: %d jobs, %d paths, %d forks, queries sat=%d unsat=%d unknown=%d, %d native replays validated, %.1fs\n",
		prop, tier, len(jobs), states, transitions, nq["sat"], nq["unsat"], nq["unknown"], validated, time.Since(t0).Seconds())
	labels := make([]string, 0, len(asserts))
	for l := range asserts {
		labels = append(labels, l)
	}
	sort.Strings(labels)
	for _, l := range labels {
		a := asserts[l]
		fmt.Printf("  assert %-34s proved=%d trivially-true=%d failed=%d unknown=%d\n", l, a.Proved, a.Trivial, a.Failed, a.Unknown)
	}
	if confirmedViol > 0 {
		return 1
	}
	if len(inconc) > 0 {
		for i, m := range inconc {
			if i > 12 {
				break
			}
			if len(m) > 600 {
				m = m[:600]
			}
			fmt.Println("INCONCLUSIVE:", m)
		}
		return 2
	}
	return 0
}
