package main

import (
	"fmt"
	"net"
	"go/token"
	"go/types"
	"math"
	"strings"

	"golang.org/x/tools/go/ssa"
)

type forkRequest struct{ alts []Alt }

// ---------- branching helpers ----------

// branchOn decides a symbolic condition on the current path, forking if both outcomes are feasible.
func (st *State) branchOn(c Value) bool {
	switch x := c.(type) {
	case bool:
		return x
	case *Term:
		if x.IsConst() {
			return x.val != 0
		}
		if v, ok := st.known[x.id]; ok {
			return v != 0
		}
		if x.op == OpNot {
			if v, ok := st.known[x.args[0].id]; ok {
				return v == 0
			}
		}
		ft, ff := st.feasible2(x)
		switch {
		case ft && !ff:
			st.addPC(x, false)
			return true
		case !ft && ff:
			st.addPC(st.tp.Not(x), false)
			return false
		case !ft && !ff:
			panic(pathInfeasible{})
		}
		id := x.id
		panic(forkRequest{[]Alt{
			{cond: x, apply: func() { st.setKnown(id, 1) }},
			{cond: st.tp.Not(x), apply: func() { st.setKnown(id, 0) }},
		}})
	}
	panic(fmt.Sprintf("branchOn: %T", c))
}

type pathInfeasible struct{}

func (st *State) setKnown(id int, v uint64) {
	old, had := st.known[id]
	st.known[id] = v
	st.trailFunc(func() {
		if had {
			st.known[id] = old
		} else {
			delete(st.known, id)
		}
	})
}

// concrete returns the concrete value of an integer Value, forking over feasible values if symbolic.
func (st *State) concrete(v Value) uint64 {
	switch x := v.(type) {
	case uint64:
		return x
	case *Term:
		if x.IsConst() {
			return x.val
		}
		if k, ok := st.known[x.id]; ok {
			return k
		}
		panic(needConcrete{x})
	}
	panic(fmt.Sprintf("concrete: %T", v))
}

const maxConcretize = 300

func (st *State) concretize(t *Term) status {
	vals, complete := st.enumerate(t, maxConcretize)
	if !complete {
		st.endReason, st.endMsg = endUnsupported, fmt.Sprintf("cannot concretize %v: more than %d feasible values @ %s", t, maxConcretize, st.where())
		return stEnd
	}
	if len(vals) == 0 {
		st.endReason = endAssumeFalse
		return stEnd
	}
	for k := range st.altModels {
		delete(st.altModels, k)
	}
	alts := make([]Alt, 0, len(vals))
	id := t.id
	for _, v := range vals {
		v := v
		alts = append(alts, Alt{cond: st.tp.Eq(t, st.tp.BVConst(t.sort.W, v)), apply: func() { st.setKnown(id, v) }})
	}
	st.pendingFork = alts
	return stRetry
}

// ---------- jump / phi ----------

func (st *State) jump(fr *Frame, to *ssa.BasicBlock) {
	from := fr.block
	if fr.visits == nil {
		fr.visits = map[int]int{}
	}
	fr.visits[to.Index]++
	if fr.visits[to.Index] > maxBlockVisits && st.trailOn {
		st.unwindFail(fmt.Sprintf("block %d of %s visited more than %d times", to.Index, fr.fn, maxBlockVisits))
	}
	// evaluate phis simultaneously
	var pidx = -1
	nphi := 0
	for _, in := range to.Instrs {
		if _, ok := in.(*ssa.Phi); ok {
			nphi++
		} else {
			break
		}
	}
	if nphi > 0 {
		for i, p := range to.Preds {
			if p == from {
				pidx = i
				break
			}
		}
		vals := make([]Value, nphi)
		for i := 0; i < nphi; i++ {
			phi := to.Instrs[i].(*ssa.Phi)
			vals[i] = st.get(fr, phi.Edges[pidx])
		}
		for i := 0; i < nphi; i++ {
			st.set(fr, to.Instrs[i].(*ssa.Phi), vals[i])
		}
	}
	fr.prev = from
	fr.block = to
	fr.ip = nphi
}

type unwindFailure struct{ msg string }

func (st *State) unwindFail(msg string) { panic(unwindFailure{msg}) }

// ---------- exec ----------

func (st *State) exec(g *Goroutine, fr *Frame, in ssa.Instruction) status {
	switch x := in.(type) {
	case *ssa.DebugRef:
		return stNext
	case *ssa.UnOp:
		if x.Op == token.ARROW {
			return st.recvOp(g, fr, x)
		}
		st.set(fr, x, st.unop(fr, x))
		return stNext
	case *ssa.BinOp:
		st.set(fr, x, st.binop(x.Op, x.X.Type(), x.Y.Type(), st.get(fr, x.X), st.get(fr, x.Y)))
		return stNext
	case *ssa.Call:
		return st.doCall(g, fr, &x.Call, fr.fi.idx[x])
	case *ssa.If:
		if st.branchOn(st.get(fr, x.Cond)) {
			st.jump(fr, fr.block.Succs[0])
		} else {
			st.jump(fr, fr.block.Succs[1])
		}
		return stJumped
	case *ssa.Jump:
		st.jump(fr, fr.block.Succs[0])
		return stJumped
	case *ssa.Return:
		var val Value
		switch len(x.Results) {
		case 0:
		case 1:
			val = st.get(fr, x.Results[0])
		default:
			t := make(Tuple, len(x.Results))
			for i, r := range x.Results {
				t[i] = st.get(fr, r)
			}
			val = t
		}
		st.doReturn(g, fr, val)
		return stJumped
	case *ssa.Store:
		p := st.get(fr, x.Addr).(Pointer)
		st.store(p, x.Val.Type(), st.get(fr, x.Val))
		return stNext
	case *ssa.Alloc:
		et := x.Type().(*types.Pointer).Elem()
		name := x.Comment
		if name == "" {
			name = "alloc"
		}
		p := st.allocType(et, name)
		if st.isModelFn(fr.fn) {
			p.obj.syncObj = true // state of the models (context model, harness models): their synchronisation is not the subject
		}
		st.set(fr, x, p)
		return stNext
	case *ssa.FieldAddr:
		p := st.get(fr, x.X).(Pointer)
		if p.obj == nil {
			st.rtPanic("invalid memory address or nil pointer dereference")
		}
		stt := x.X.Type().Underlying().(*types.Pointer).Elem()
		l := st.eng.layout(stt)
		p.off += l.fields[x.Field]
		st.set(fr, x, p)
		return stNext
	case *ssa.Field:
		a := st.get(fr, x.X).(Agg)
		l := st.eng.layout(x.X.Type())
		ft := x.Type()
		fl := st.eng.layout(ft)
		off := l.fields[x.Field]
		if fl.agg {
			st.set(fr, x, Agg(a[off:off+fl.n:off+fl.n]))
		} else {
			st.set(fr, x, a[off])
		}
		return stNext
	case *ssa.IndexAddr:
		st.set(fr, x, st.indexAddr(fr, x))
		return stNext
	case *ssa.Index:
		st.set(fr, x, st.indexVal(fr, x))
		return stNext
	case *ssa.Extract:
		t := st.get(fr, x.Tuple).(Tuple)
		st.set(fr, x, t[x.Index])
		return stNext
	case *ssa.Phi:
		panic("phi executed directly")
	case *ssa.Convert:
		st.set(fr, x, st.convert(x.X.Type(), x.Type(), st.get(fr, x.X)))
		return stNext
	case *ssa.ChangeType:
		st.set(fr, x, st.get(fr, x.X))
		return stNext
	case *ssa.MultiConvert:
		st.set(fr, x, st.convert(x.X.Type(), x.Type(), st.get(fr, x.X)))
		return stNext
	case *ssa.MakeInterface:
		st.set(fr, x, Iface{typ: x.X.Type(), val: st.get(fr, x.X)})
		return stNext
	case *ssa.ChangeInterface:
		st.set(fr, x, st.get(fr, x.X))
		return stNext
	case *ssa.TypeAssert:
		st.set(fr, x, st.typeAssert(x, st.get(fr, x.X)))
		return stNext
	case *ssa.MakeClosure:
		fn := x.Fn.(*ssa.Function)
		env := make([]Value, len(x.Bindings))
		for i, b := range x.Bindings {
			env[i] = st.get(fr, b)
		}
		st.set(fr, x, &Closure{fn: fn, env: env})
		return stNext
	case *ssa.MakeSlice:
		n := st.concrete(st.get(fr, x.Len))
		c := st.concrete(st.get(fr, x.Cap))
		if int64(n) < 0 || int64(c) < int64(n) {
			st.rtPanic("makeslice: len out of range")
		}
		if c > 1<<24 {
			st.unsupported("make slice of %d elements", c)
		}
		et := x.Type().Underlying().(*types.Slice).Elem()
		ms := st.makeSlice(et, int(n), int(c))
		if st.isModelFn(fr.fn) {
			ms.obj.syncObj = true
		}
		st.set(fr, x, ms)
		return stNext
	case *ssa.Slice:
		st.set(fr, x, st.sliceOp(fr, x))
		return stNext
	case *ssa.MakeMap:
		mt := x.Type().Underlying().(*types.Map)
		st.set(fr, x, st.newMap(mt))
		return stNext
	case *ssa.MapUpdate:
		m := st.get(fr, x.Map).(*MapObj)
		if m == nil {
			st.rtPanic("assignment to entry in nil map")
		}
		st.mapUpdate(m, st.get(fr, x.Key), st.get(fr, x.Value))
		return stNext
	case *ssa.Lookup:
		st.set(fr, x, st.lookup(fr, x))
		return stNext
	case *ssa.Range:
		st.set(fr, x, st.makeRange(st.get(fr, x.X), x.X.Type()))
		return stNext
	case *ssa.Next:
		st.set(fr, x, st.next(x, st.get(fr, x.Iter)))
		return stNext
	case *ssa.Defer:
		fv, args := st.resolveCall(fr, &x.Call)
		fr.defers = append(fr.defers, deferred{fn: fv, args: args})
		return stNext
	case *ssa.RunDefers:
		if len(fr.defers) == 0 {
			return stNext
		}
		d := fr.defers[len(fr.defers)-1]
		fr.defers = fr.defers[:len(fr.defers)-1]
		s := st.invoke(g, fr, d.fn, d.args, -1, true)
		if s == stNext {
			return stJumped // native completed; re-execute RunDefers
		}
		if s == stRetry || s == stYield {
			// put it back, it will be retried
			fr.defers = append(fr.defers, d)
		}
		return s
	case *ssa.Panic:
		v := st.get(fr, x.X)
		msg := "panic: " + valueString(v)
		if iv, ok := v.(Iface); ok {
			if s, ok := iv.val.(string); ok {
				msg = "panic: " + s
			}
		}
		panic(goPanic{msg: msg, val: v})
	case *ssa.Go:
		return st.doGo(g, fr, x)
	case *ssa.MakeChan:
		n := st.concrete(st.get(fr, x.Size))
		st.set(fr, x, st.newChan(int(n), x.Type().Underlying().(*types.Chan).Elem()))
		return stNext
	case *ssa.Send:
		return st.doSend(g, fr, x)
	case *ssa.Select:
		return st.doSelect(g, fr, x)
	case *ssa.SliceToArrayPointer:
		s := st.get(fr, x.X).(Slice)
		n := x.Type().Underlying().(*types.Pointer).Elem().Underlying().(*types.Array).Len()
		if st.branchOn(st.ultV(s.len, uint64(n), 64)) {
			st.rtPanic("cannot convert slice to array pointer: length too short")
		}
		st.set(fr, x, Pointer{obj: s.obj, off: s.off})
		return stNext
	}
	st.unsupported("instruction %T: %v", in, in)
	return stEnd
}

// isModelFn: the function belongs to the harness runtime or to a harness file (zz_verif_*.go overlay).
func (st *State) isModelFn(fn *ssa.Function) bool {
	if v, ok := st.eng.modelFn.Load(fn); ok {
		return v.(bool)
	}
	root := fn
	for root.Parent() != nil {
		root = root.Parent()
	}
	res := false
	if root.Pkg != nil && (root.Pkg.Pkg.Path() == verifPkg || strings.HasSuffix(root.Pkg.Pkg.Path(), "/zzvnet")) {
		res = true
	} else if root.Pos().IsValid() {
		f := st.eng.prog.Fset.Position(root.Pos()).Filename
		res = strings.HasPrefix(shortFile(f), "zz_verif_")
	}
	st.eng.modelFn.Store(fn, res)
	return res
}

// ---------- calls ----------

func (st *State) resolveCall(fr *Frame, c *ssa.CallCommon) (Value, []Value) {
	var args []Value
	if c.IsInvoke() {
		recv := st.get(fr, c.Value)
		iv, ok := recv.(Iface)
		if !ok {
			panic(fmt.Sprintf("invoke on %T", recv))
		}
		if iv.typ == nil {
			st.rtPanic("invalid memory address or nil pointer dereference (nil interface method call " + c.Method.Name() + ")")
		}
		fn := st.lookupMethod(iv.typ, c.Method)
		if fn == nil {
			st.unsupported("method %s not found on %v", c.Method.Name(), iv.typ)
		}
		args = make([]Value, 0, len(c.Args)+1)
		args = append(args, iv.val)
		for _, a := range c.Args {
			args = append(args, st.get(fr, a))
		}
		return &Closure{fn: fn}, args
	}
	fv := st.get(fr, c.Value)
	args = make([]Value, len(c.Args))
	for i, a := range c.Args {
		args[i] = st.get(fr, a)
	}
	return fv, args
}

func (st *State) lookupMethod(t types.Type, m *types.Func) *ssa.Function {
	ms := st.eng.prog.MethodSets.MethodSet(t)
	sel := ms.Lookup(m.Pkg(), m.Name())
	if sel == nil {
		return nil
	}
	return st.eng.prog.MethodValue(sel)
}

func (st *State) doCall(g *Goroutine, fr *Frame, c *ssa.CallCommon, resultReg int) status {
	fv, args := st.resolveCall(fr, c)
	return st.invoke(g, fr, fv, args, resultReg, false)
}

// ---------- unary / binary ops ----------

func (st *State) unop(fr *Frame, x *ssa.UnOp) Value {
	v := st.get(fr, x.X)
	switch x.Op {
	case token.MUL:
		r := st.load(v.(Pointer), x.Type())
		if gl, ok := x.X.(*ssa.Global); ok {
			if iv, ok := r.(Iface); ok && iv.typ == nil {
				if s, ok := st.sentinelFor(gl); ok {
					return s
				}
			}
		}
		return r
	case token.NOT:
		switch b := v.(type) {
		case bool:
			return !b
		case *Term:
			return st.tp.Not(b)
		}
	case token.SUB:
		t := x.X.Type()
		if w, _, ok := intInfo(t); ok {
			switch i := v.(type) {
			case uint64:
				return (-i) & mask(w)
			case *Term:
				return st.tp.Neg(i)
			}
		}
		if w, ok := floatWidth(t); ok {
			switch f := v.(type) {
			case float64:
				return -f
			case *Term:
				_ = w
				return st.tp.FNeg(f)
			}
		}
	case token.XOR:
		w, _, _ := intInfo(x.X.Type())
		switch i := v.(type) {
		case uint64:
			return (^i) & mask(w)
		case *Term:
			return st.tp.BNot(i)
		}
	case token.ARROW:
		panic("chan recv handled elsewhere")
	}
	st.unsupported("unop %v on %T", x.Op, v)
	return nil
}

func (st *State) ultV(a Value, b Value, w int) Value {
	x, xc := a.(uint64)
	y, yc := b.(uint64)
	if xc && yc {
		return x < y
	}
	return norm(st.tp.Ult(st.intTerm(a, w), st.intTerm(b, w)))
}

func (st *State) binop(op token.Token, tx, ty types.Type, a, b Value) Value {
	// integer
	if w, signed, ok := intInfo(tx); ok {
		if op == token.SHL || op == token.SHR {
			return st.shift(op, w, signed, a, b, ty)
		}
		x, xc := a.(uint64)
		y, yc := b.(uint64)
		if xc && yc {
			return concreteIntOp(st, op, w, signed, x, y)
		}
		ta, tb := st.intTerm(a, w), st.intTerm(b, w)
		p := st.tp
		switch op {
		case token.ADD:
			return norm(p.Add(ta, tb))
		case token.SUB:
			return norm(p.Sub(ta, tb))
		case token.MUL:
			return norm(p.Mul(ta, tb))
		case token.QUO, token.REM:
			if st.branchOn(norm(p.Eq(tb, p.BVConst(w, 0)))) {
				st.rtPanic("integer divide by zero")
			}
			if signed {
				if op == token.QUO {
					return norm(p.SDiv(ta, tb))
				}
				return norm(p.SRem(ta, tb))
			}
			if op == token.QUO {
				return norm(p.UDiv(ta, tb))
			}
			return norm(p.URem(ta, tb))
		case token.AND:
			return norm(p.BAnd(ta, tb))
		case token.OR:
			return norm(p.BOr(ta, tb))
		case token.XOR:
			return norm(p.BXor(ta, tb))
		case token.AND_NOT:
			return norm(p.BAnd(ta, p.BNot(tb)))
		case token.EQL:
			return norm(p.Eq(ta, tb))
		case token.NEQ:
			return norm(p.Not(p.Eq(ta, tb)))
		case token.LSS:
			if signed {
				return norm(p.Slt(ta, tb))
			}
			return norm(p.Ult(ta, tb))
		case token.LEQ:
			if signed {
				return norm(p.Sle(ta, tb))
			}
			return norm(p.Ule(ta, tb))
		case token.GTR:
			if signed {
				return norm(p.Slt(tb, ta))
			}
			return norm(p.Ult(tb, ta))
		case token.GEQ:
			if signed {
				return norm(p.Sle(tb, ta))
			}
			return norm(p.Ule(tb, ta))
		}
		st.unsupported("int binop %v", op)
	}
	if fw, ok := floatWidth(tx); ok {
		x, xc := a.(float64)
		y, yc := b.(float64)
		if xc && yc {
			if fw == 32 {
				x32, y32 := float32(x), float32(y)
				switch op {
				case token.ADD:
					return float64(x32 + y32)
				case token.SUB:
					return float64(x32 - y32)
				case token.MUL:
					return float64(x32 * y32)
				case token.QUO:
					return float64(x32 / y32)
				}
			}
			switch op {
			case token.ADD:
				return x + y
			case token.SUB:
				return x - y
			case token.MUL:
				return x * y
			case token.QUO:
				return x / y
			case token.EQL:
				return x == y
			case token.NEQ:
				return x != y
			case token.LSS:
				return x < y
			case token.LEQ:
				return x <= y
			case token.GTR:
				return x > y
			case token.GEQ:
				return x >= y
			}
		}
		ta, tb := st.toTerm(a, tx), st.toTerm(b, tx)
		p := st.tp
		switch op {
		case token.ADD:
			return norm(p.FAdd(ta, tb))
		case token.SUB:
			return norm(p.FSub(ta, tb))
		case token.MUL:
			return norm(p.FMul(ta, tb))
		case token.QUO:
			return norm(p.FDiv(ta, tb))
		case token.EQL:
			return norm(p.FEq(ta, tb))
		case token.NEQ:
			return norm(p.Not(p.FEq(ta, tb)))
		case token.LSS:
			return norm(p.FLt(ta, tb))
		case token.LEQ:
			return norm(p.FLe(ta, tb))
		case token.GTR:
			return norm(p.FLt(tb, ta))
		case token.GEQ:
			return norm(p.FLe(tb, ta))
		}
		st.unsupported("float binop %v", op)
	}
	if isBool(tx) {
		switch op {
		case token.EQL:
			return st.equal(tx, a, b)
		case token.NEQ:
			return st.notV(st.equal(tx, a, b))
		case token.AND, token.LAND:
			return norm(st.tp.And(st.boolTerm(a), st.boolTerm(b)))
		case token.OR, token.LOR:
			return norm(st.tp.Or(st.boolTerm(a), st.boolTerm(b)))
		}
	}
	if isString(tx) {
		return st.stringOp(op, a, b)
	}
	switch op {
	case token.EQL:
		return st.equal(tx, a, b)
	case token.NEQ:
		return st.notV(st.equal(tx, a, b))
	}
	st.unsupported("binop %v on %v", op, tx)
	return nil
}

func (st *State) notV(v Value) Value {
	switch x := v.(type) {
	case bool:
		return !x
	case *Term:
		return norm(st.tp.Not(x))
	}
	panic("notV")
}

func concreteIntOp(st *State, op token.Token, w int, signed bool, x, y uint64) Value {
	m := mask(w)
	sx, sy := sext64(x, w), sext64(y, w)
	switch op {
	case token.ADD:
		return (x + y) & m
	case token.SUB:
		return (x - y) & m
	case token.MUL:
		return (x * y) & m
	case token.QUO:
		if y == 0 {
			st.rtPanic("integer divide by zero")
		}
		if signed {
			if sy == -1 {
				return uint64(-sx) & m
			}
			return uint64(sx/sy) & m
		}
		return (x / y) & m
	case token.REM:
		if y == 0 {
			st.rtPanic("integer divide by zero")
		}
		if signed {
			if sy == -1 {
				return uint64(0)
			}
			return uint64(sx%sy) & m
		}
		return (x % y) & m
	case token.AND:
		return x & y
	case token.OR:
		return x | y
	case token.XOR:
		return x ^ y
	case token.AND_NOT:
		return x &^ y
	case token.EQL:
		return x == y
	case token.NEQ:
		return x != y
	case token.LSS:
		if signed {
			return sx < sy
		}
		return x < y
	case token.LEQ:
		if signed {
			return sx <= sy
		}
		return x <= y
	case token.GTR:
		if signed {
			return sx > sy
		}
		return x > y
	case token.GEQ:
		if signed {
			return sx >= sy
		}
		return x >= y
	}
	st.unsupported("concrete int op %v", op)
	return nil
}

func (st *State) shift(op token.Token, w int, signed bool, a, b Value, ty types.Type) Value {
	yw, ysigned, _ := intInfo(ty)
	x, xc := a.(uint64)
	y, yc := b.(uint64)
	if yc && ysigned && sext64(y, yw) < 0 {
		st.rtPanic("negative shift amount")
	}
	if xc && yc {
		if op == token.SHL {
			if y >= uint64(w) {
				return uint64(0)
			}
			return (x << y) & mask(w)
		}
		if signed {
			if y >= uint64(w) {
				y = uint64(w - 1)
			}
			return uint64(sext64(x, w)>>y) & mask(w)
		}
		if y >= uint64(w) {
			return uint64(0)
		}
		return x >> y
	}
	p := st.tp
	ta := st.intTerm(a, w)
	tb := st.intTerm(b, yw)
	if ysigned && !yc {
		if st.branchOn(norm(p.Slt(tb, p.BVConst(yw, 0)))) {
			st.rtPanic("negative shift amount")
		}
	}
	// bring shift count to width w, saturating
	var cnt *Term
	if yw > w {
		big := p.Ule(p.BVConst(yw, uint64(w)), tb)
		cnt = p.Ite(big, p.BVConst(w, uint64(w)), p.Extract(tb, w-1, 0))
	} else {
		cnt = p.Zext(tb, w-yw)
	}
	if op == token.SHL {
		return norm(p.Shl(ta, cnt))
	}
	if signed {
		return norm(p.Ashr(ta, cnt))
	}
	return norm(p.Lshr(ta, cnt))
}

// ---------- equality ----------

func (st *State) andV(a, b Value) Value {
	x, xc := a.(bool)
	y, yc := b.(bool)
	if xc && yc {
		return x && y
	}
	if xc {
		if !x {
			return false
		}
		return b
	}
	if yc {
		if !y {
			return false
		}
		return a
	}
	return norm(st.tp.And(a.(*Term), b.(*Term)))
}

func (st *State) equal(t types.Type, a, b Value) Value {
	switch u := t.Underlying().(type) {
	case *types.Basic:
		if u.Kind() == types.UntypedNil {
			return true
		}
		if w, _, ok := intInfo(t); ok {
			x, xc := a.(uint64)
			y, yc := b.(uint64)
			if xc && yc {
				return x == y
			}
			return norm(st.tp.Eq(st.intTerm(a, w), st.intTerm(b, w)))
		}
		if isBool(t) {
			x, xc := a.(bool)
			y, yc := b.(bool)
			if xc && yc {
				return x == y
			}
			return norm(st.tp.Eq(st.boolTerm(a), st.boolTerm(b)))
		}
		if _, ok := floatWidth(t); ok {
			x, xc := a.(float64)
			y, yc := b.(float64)
			if xc && yc {
				return x == y
			}
			return norm(st.tp.FEq(st.toTerm(a, t), st.toTerm(b, t)))
		}
		if isString(t) {
			return st.stringOp(token.EQL, a, b)
		}
		if u.Kind() == types.UnsafePointer {
			return a.(Pointer) == b.(Pointer)
		}
	case *types.Pointer:
		return st.ptrEqual(a.(Pointer), b.(Pointer))
	case *types.Struct, *types.Array:
		l := st.eng.layout(t)
		x, y := a.(Agg), b.(Agg)
		var res Value = true
		for i := 0; i < l.n; i++ {
			res = st.andV(res, st.equal(l.leaf[i], x[i], y[i]))
			if r, ok := res.(bool); ok && !r {
				return false
			}
		}
		return res
	case *types.Interface:
		x, y := a.(Iface), b.(Iface)
		if x.typ == nil || y.typ == nil {
			return x.typ == nil && y.typ == nil
		}
		if !types.Identical(x.typ, y.typ) {
			return false
		}
		if !types.Comparable(x.typ) {
			st.rtPanic("comparing uncomparable type " + x.typ.String())
		}
		return st.equal(x.typ, x.val, y.val)
	case *types.Slice:
		// only nil comparisons
		x, y := a.(Slice), b.(Slice)
		return x.obj == nil && y.obj == nil
	case *types.Map:
		return a.(*MapObj) == b.(*MapObj)
	case *types.Chan:
		return a.(*ChanObj) == b.(*ChanObj)
	case *types.Signature:
		x, y := a.(*Closure), b.(*Closure)
		return x == nil && y == nil || (x != nil && y != nil && x == y)
	}
	st.unsupported("equal on %v", t)
	return nil
}

func (st *State) ptrEqual(x, y Pointer) Value {
	if x.obj != y.obj {
		return false
	}
	if x.obj == nil {
		return true
	}
	if x.sidx == nil && y.sidx == nil {
		return x.off == y.off
	}
	st.unsupported("compare of symbolic pointers")
	return nil
}

// ---------- strings ----------

func (st *State) strBytes(v Value) []Value {
	switch s := v.(type) {
	case string:
		out := make([]Value, len(s))
		for i := 0; i < len(s); i++ {
			out[i] = uint64(s[i])
		}
		return out
	case *SymStr:
		return s.b
	}
	panic(fmt.Sprintf("strBytes: %T", v))
}

func (st *State) mkString(b []Value) Value {
	allc := true
	for _, x := range b {
		if _, ok := x.(uint64); !ok {
			allc = false
			break
		}
	}
	if allc {
		bs := make([]byte, len(b))
		for i, x := range b {
			bs[i] = byte(x.(uint64))
		}
		return string(bs)
	}
	return &SymStr{b: b}
}

func (st *State) stringOp(op token.Token, a, b Value) Value {
	x, xc := a.(string)
	y, yc := b.(string)
	if xc && yc {
		switch op {
		case token.ADD:
			return x + y
		case token.EQL:
			return x == y
		case token.NEQ:
			return x != y
		case token.LSS:
			return x < y
		case token.LEQ:
			return x <= y
		case token.GTR:
			return x > y
		case token.GEQ:
			return x >= y
		}
	}
	if _, ok := a.(*opaqueStr); ok {
		return st.opaqueStrOp(op, a, b)
	}
	if _, ok := b.(*opaqueStr); ok {
		return st.opaqueStrOp(op, a, b)
	}
	ba, bb := st.strBytes(a), st.strBytes(b)
	switch op {
	case token.ADD:
		out := make([]Value, 0, len(ba)+len(bb))
		out = append(out, ba...)
		out = append(out, bb...)
		return st.mkString(out)
	case token.EQL, token.NEQ:
		var res Value = true
		if len(ba) != len(bb) {
			res = false
		} else {
			for i := range ba {
				res = st.andV(res, st.equal(types.Typ[types.Uint8], ba[i], bb[i]))
			}
		}
		if op == token.NEQ {
			return st.notV(res)
		}
		return res
	}
	st.unsupported("string op %v on symbolic strings", op)
	return nil
}

// opaqueStr is an uninterpreted string (result of a formatting stub). Only identity comparisons are supported.
type opaqueStr struct {
	id   int
	desc string
	fam  string  // injective family: strings of one family are equal iff their inj tuples are equal
	inj  []Value
}

func (st *State) newOpaque(desc string) *opaqueStr {
	st.opaqueCnt++
	return &opaqueStr{id: st.opaqueCnt, desc: desc}
}

func (st *State) opaqueStrOp(op token.Token, a, b Value) Value {
	oa, _ := a.(*opaqueStr)
	ob, _ := b.(*opaqueStr)
	switch op {
	case token.ADD:
		// constant prefix/suffix around a member of an injective family stays injective
		if oa == nil && ob != nil && ob.inj != nil {
			if sa, ok := a.(string); ok {
				n := st.newOpaque("concat")
				n.fam, n.inj = sa+"+"+ob.fam, ob.inj
				return n
			}
		}
		if ob == nil && oa != nil && oa.inj != nil {
			if sb, ok := b.(string); ok {
				n := st.newOpaque("concat")
				n.fam, n.inj = oa.fam+"+"+sb, oa.inj
				return n
			}
		}
		return st.newOpaque("concat")
	case token.EQL, token.NEQ:
		var res Value
		switch {
		case oa != nil && ob != nil && oa == ob:
			res = true
		case oa != nil && ob != nil && oa.inj != nil && ob.inj != nil && oa.fam == ob.fam:
			res = true
			for i := range oa.inj {
				res = st.andV(res, st.equal(types.Typ[types.Uint8], oa.inj[i], ob.inj[i]))
			}
		case (oa != nil && oa.inj != nil && strings.HasSuffix(oa.fam, "ip:") && ob == nil) || (ob != nil && ob.inj != nil && strings.HasSuffix(ob.fam, "ip:") && oa == nil):
			// symbolic address text against a concrete string: equal iff the string is the literal of that address
			o, other := oa, b
			if o == nil {
				o, other = ob, a
			}
			cs, ok := other.(string)
			if !ok {
				st.unsupported("equality on opaque strings")
			}
			// family "<prefix>+ip:" = constant prefix followed by the address text
			prefix := strings.TrimSuffix(strings.TrimSuffix(o.fam, "ip:"), "+")
			if !strings.HasPrefix(cs, prefix) {
				res = false
				if op == token.NEQ {
					return true
				}
				return res
			}
			cs = cs[len(prefix):]
			ip := net.ParseIP(cs)
			if ip == nil || ip.String() != cs {
				res = false
			} else {
				c16 := ip.To16()
				res = true
				for i := range o.inj {
					res = st.andV(res, st.equal(types.Typ[types.Uint8], o.inj[i], uint64(c16[i])))
				}
			}
		default:
			st.unsupported("equality on opaque strings")
		}
		if op == token.NEQ {
			return st.notV(res)
		}
		return res
	}
	st.unsupported("op %v on opaque string", op)
	return nil
}

// ---------- conversions ----------

func (st *State) convert(from, to types.Type, v Value) Value {
	if tp, ok := to.(*types.TypeParam); ok {
		_ = tp
		st.unsupported("convert to type param")
	}
	fu, tu := from.Underlying(), to.Underlying()
	// int -> ...
	if fw, fsigned, ok := intInfo(from); ok {
		if tw, _, ok := intInfo(to); ok {
			switch x := v.(type) {
			case uint64:
				if fsigned {
					return uint64(sext64(x, fw)) & mask(tw)
				}
				return x & mask(tw)
			case *Term:
				return norm(st.tp.Resize(x, tw, fsigned))
			}
		}
		if tfw, ok := floatWidth(to); ok {
			switch x := v.(type) {
			case uint64:
				var f float64
				if fsigned {
					f = float64(sext64(x, fw))
				} else {
					f = float64(x)
				}
				if tfw == 32 {
					f = float64(float32(f))
				}
				return f
			case *Term:
				return st.tp.FFromBV(x, fsigned, tfw)
			}
		}
		if isString(to) {
			x := st.concrete(v)
			return string(rune(sext64(x, fw)))
		}
		if b, ok := tu.(*types.Basic); ok && b.Kind() == types.UnsafePointer {
			st.unsupported("uintptr -> unsafe.Pointer")
		}
	}
	if ffw, ok := floatWidth(from); ok {
		if tfw, ok := floatWidth(to); ok {
			switch x := v.(type) {
			case float64:
				if tfw == 32 {
					return float64(float32(x))
				}
				return x
			case *Term:
				return st.tp.FToFP(x, tfw)
			}
		}
		if tw, tsigned, ok := intInfo(to); ok {
			switch x := v.(type) {
			case float64:
				if tsigned {
					return uint64(int64(x)) & mask(tw)
				}
				return uint64(x) & mask(tw)
			case *Term:
				_ = ffw
				return st.tp.FToBV(x, tsigned, tw)
			}
		}
	}
	// string <-> []byte / []rune
	if isString(from) {
		if ts, ok := tu.(*types.Slice); ok {
			eb, _ := ts.Elem().Underlying().(*types.Basic)
			if eb != nil && eb.Kind() == types.Uint8 {
				bs := st.strBytes(st.plainString(v))
				s := st.makeSlice(ts.Elem(), len(bs), len(bs))
				for i, b := range bs {
					s.obj.slots[i] = b
				}
				return s
			}
			if eb != nil && eb.Kind() == types.Int32 {
				str, ok := v.(string)
				if !ok {
					st.unsupported("[]rune of symbolic string")
				}
				rs := []rune(str)
				s := st.makeSlice(ts.Elem(), len(rs), len(rs))
				for i, r := range rs {
					s.obj.slots[i] = uint64(uint32(r))
				}
				return s
			}
		}
		if isString(to) {
			return v
		}
	}
	if fs, ok := fu.(*types.Slice); ok && isString(to) {
		eb, _ := fs.Elem().Underlying().(*types.Basic)
		s := v.(Slice)
		n := int(st.concrete(s.len))
		if eb != nil && eb.Kind() == types.Uint8 {
			bs := make([]Value, n)
			for i := 0; i < n; i++ {
				bs[i] = s.obj.slots[s.off+i]
			}
			return st.mkString(bs)
		}
		if eb != nil && eb.Kind() == types.Int32 {
			rs := make([]rune, n)
			for i := 0; i < n; i++ {
				rs[i] = rune(st.concrete(s.obj.slots[s.off+i]))
			}
			return string(rs)
		}
	}
	// pointer <-> unsafe.Pointer
	if _, ok := fu.(*types.Pointer); ok {
		if b, ok := tu.(*types.Basic); ok && b.Kind() == types.UnsafePointer {
			return v
		}
	}
	if b, ok := fu.(*types.Basic); ok && b.Kind() == types.UnsafePointer {
		if _, ok := tu.(*types.Pointer); ok {
			return v
		}
		if _, _, ok := intInfo(to); ok {
			st.unsupported("unsafe.Pointer -> uintptr")
		}
	}
	// slice -> array / array pointer handled by other instrs; identical underlying
	if types.Identical(fu, tu) {
		return v
	}
	st.unsupported("convert %v -> %v", from, to)
	return nil
}

func (st *State) plainString(v Value) Value {
	if _, ok := v.(*opaqueStr); ok {
		st.unsupported("inspecting bytes of an opaque (formatted) string")
	}
	return v
}

// ---------- type assertions ----------

func (st *State) implements(t types.Type, it *types.Interface) bool {
	return types.Implements(t, it)
}

func (st *State) typeAssert(x *ssa.TypeAssert, v Value) Value {
	iv := v.(Iface)
	var ok bool
	var res Value
	if it, isI := x.AssertedType.Underlying().(*types.Interface); isI {
		ok = iv.typ != nil && st.implements(iv.typ, it)
		if ok {
			res = iv
		} else {
			res = Iface{}
		}
	} else {
		ok = iv.typ != nil && types.Identical(iv.typ, x.AssertedType)
		if ok {
			res = iv.val
		} else {
			res = st.zero(x.AssertedType)
		}
	}
	if x.CommaOk {
		return Tuple{res, ok}
	}
	if !ok {
		tn := "nil"
		if iv.typ != nil {
			tn = iv.typ.String()
		}
		st.rtPanic(fmt.Sprintf("interface conversion: interface is %s, not %s", tn, x.AssertedType))
	}
	return res
}

// ---------- slices / arrays ----------

func (st *State) makeSlice(et types.Type, n, c int) Slice {
	l := st.eng.layout(et)
	o := &Obj{id: st.nextObj, name: "slice"}
	st.nextObj++
	o.slots = make([]Value, c*l.n)
	if c*l.n > bigObj {
		o.dirty = map[int]struct{}{}
	}
	if l.n == 1 {
		z := l.zeros[0]
		for i := range o.slots {
			o.slots[i] = z
		}
	} else {
		for i := 0; i < c; i++ {
			copy(o.slots[i*l.n:], l.zeros)
		}
	}
	return Slice{obj: o, off: 0, len: uint64(n), cap: c, esz: l.n}
}

func (st *State) sliceLenHi(s Slice) int {
	switch x := s.len.(type) {
	case uint64:
		return int(x)
	case *Term:
		_, hi := st.boundsOf(x)
		if hi > uint64(s.cap) {
			return s.cap
		}
		return int(hi)
	}
	return s.cap
}

func (st *State) indexAddr(fr *Frame, x *ssa.IndexAddr) Value {
	base := st.get(fr, x.X)
	idx := st.get(fr, x.Index)
	iw, _, _ := intInfo(x.Index.Type())
	if iw != 64 {
		// widen index to 64 bits
		idx = st.convert(x.Index.Type(), types.Typ[types.Int], idx)
	}
	switch b := base.(type) {
	case Slice:
		inb := st.ultV(idx, b.len, 64)
		if !st.branchOn(inb) {
			st.rtPanic(fmt.Sprintf("index out of range [%s] with length %s", valueString(idx), valueString(b.len)))
		}
		if i, ok := idx.(uint64); ok {
			return Pointer{obj: b.obj, off: b.off + int(i)*b.esz}
		}
		if k, ok := st.known[idx.(*Term).id]; ok {
			return Pointer{obj: b.obj, off: b.off + int(k)*b.esz}
		}
		return Pointer{obj: b.obj, off: b.off, sidx: idx.(*Term), stride: b.esz, cLo: 0, cHi: st.sliceLenHi(b)}
	case Pointer:
		if b.obj == nil {
			st.rtPanic("invalid memory address or nil pointer dereference")
		}
		at := x.X.Type().Underlying().(*types.Pointer).Elem().Underlying().(*types.Array)
		n := at.Len()
		if !st.branchOn(st.ultV(idx, uint64(n), 64)) {
			st.rtPanic(fmt.Sprintf("index out of range [%s] with length %d", valueString(idx), n))
		}
		esz := st.eng.layout(at.Elem()).n
		if i, ok := idx.(uint64); ok {
			b.off += int(i) * esz
			return b
		}
		if k, ok := st.known[idx.(*Term).id]; ok {
			b.off += int(k) * esz
			return b
		}
		if b.sidx != nil {
			panic(needConcrete{idx.(*Term)})
		}
		b.sidx = idx.(*Term)
		b.stride = esz
		b.cLo, b.cHi = 0, int(n)
		return b
	}
	panic(fmt.Sprintf("indexAddr on %T", base))
}

func (st *State) indexVal(fr *Frame, x *ssa.Index) Value {
	base := st.get(fr, x.X)
	idx := st.get(fr, x.Index)
	iw, _, _ := intInfo(x.Index.Type())
	if iw != 64 {
		idx = st.convert(x.Index.Type(), types.Typ[types.Int], idx)
	}
	if isString(x.X.Type()) {
		return st.stringIndex(base, idx)
	}
	a := base.(Agg)
	at := x.X.Type().Underlying().(*types.Array)
	n := at.Len()
	if !st.branchOn(st.ultV(idx, uint64(n), 64)) {
		st.rtPanic("index out of range")
	}
	el := st.eng.layout(at.Elem())
	pick := func(i int) Value {
		if el.agg {
			return Agg(a[i*el.n : (i+1)*el.n : (i+1)*el.n])
		}
		return a[i]
	}
	if i, ok := idx.(uint64); ok {
		return pick(int(i))
	}
	it := idx.(*Term)
	if k, ok := st.known[it.id]; ok {
		return pick(int(k))
	}
	lo, hi := st.boundsOf(it)
	if hi >= uint64(n) {
		hi = uint64(n) - 1
	}
	res := pick(int(hi))
	for i := int(hi) - 1; i >= int(lo); i-- {
		m, ok := st.mergeTyped(st.tp.Eq(it, st.tp.BVConst(64, uint64(i))), pick(i), res, at.Elem())
		if !ok {
			panic(needConcrete{it})
		}
		res = m
	}
	return res
}

func (st *State) stringIndex(s Value, idx Value) Value {
	bs := st.strBytes(st.plainString(s))
	if !st.branchOn(st.ultV(idx, uint64(len(bs)), 64)) {
		st.rtPanic("index out of range (string)")
	}
	if i, ok := idx.(uint64); ok {
		return bs[i]
	}
	it := idx.(*Term)
	if k, ok := st.known[it.id]; ok {
		return bs[k]
	}
	lo, hi := st.boundsOf(it)
	if hi >= uint64(len(bs)) {
		hi = uint64(len(bs)) - 1
	}
	var res *Term = st.intTerm(bs[hi], 8)
	for i := int(hi) - 1; i >= int(lo); i-- {
		res = st.tp.Ite(st.tp.Eq(it, st.tp.BVConst(64, uint64(i))), st.intTerm(bs[i], 8), res)
	}
	return norm(res)
}

func (st *State) sliceOp(fr *Frame, x *ssa.Slice) Value {
	base := st.get(fr, x.X)
	var lo, hi, max Value
	if x.Low != nil {
		lo = st.to64(st.get(fr, x.Low), x.Low.Type())
	}
	if x.High != nil {
		hi = st.to64(st.get(fr, x.High), x.High.Type())
	}
	if x.Max != nil {
		max = st.to64(st.get(fr, x.Max), x.Max.Type())
	}
	switch b := base.(type) {
	case Slice:
		return st.reslice(b, lo, hi, max, false)
	case Pointer: // *array
		if b.obj == nil {
			st.rtPanic("slice of nil array pointer")
		}
		at := x.X.Type().Underlying().(*types.Pointer).Elem().Underlying().(*types.Array)
		esz := st.eng.layout(at.Elem()).n
		if b.sidx != nil {
			st.unsupported("slice of symbolically indexed array")
		}
		s := Slice{obj: b.obj, off: b.off, len: uint64(at.Len()), cap: int(at.Len()), esz: esz}
		return st.reslice(s, lo, hi, max, true)
	case string, *SymStr:
		bs := st.strBytes(b)
		l, h := 0, len(bs)
		if lo != nil {
			l = int(st.concrete(lo))
		}
		if hi != nil {
			h = int(st.concrete(hi))
		}
		if l < 0 || l > h || h > len(bs) {
			st.rtPanic("slice bounds out of range (string)")
		}
		return st.mkString(bs[l:h])
	case *opaqueStr:
		st.unsupported("slicing opaque string")
	}
	panic(fmt.Sprintf("sliceOp on %T", base))
}

func (st *State) to64(v Value, t types.Type) Value {
	w, _, _ := intInfo(t)
	if w == 64 {
		return v
	}
	return st.convert(t, types.Typ[types.Int], v)
}

func (st *State) uleV(a, b Value) Value {
	x, xc := a.(uint64)
	y, yc := b.(uint64)
	if xc && yc {
		return x <= y
	}
	return norm(st.tp.Ule(st.intTerm(a, 64), st.intTerm(b, 64)))
}

func (st *State) subV(a, b Value) Value {
	x, xc := a.(uint64)
	y, yc := b.(uint64)
	if xc && yc {
		return x - y
	}
	return norm(st.tp.Sub(st.intTerm(a, 64), st.intTerm(b, 64)))
}

func (st *State) addV(a, b Value) Value {
	x, xc := a.(uint64)
	y, yc := b.(uint64)
	if xc && yc {
		return x + y
	}
	return norm(st.tp.Add(st.intTerm(a, 64), st.intTerm(b, 64)))
}

func (st *State) reslice(s Slice, lo, hi, max Value, isArray bool) Value {
	var l uint64
	if lo != nil {
		l = st.concrete(lo)
	}
	capv := uint64(s.cap)
	if max != nil {
		m := st.concrete(max)
		if m > capv {
			st.rtPanic("slice bounds out of range [::max]")
		}
		capv = m
	}
	var h Value = s.len
	if hi != nil {
		h = hi
	}
	// checks: l <= h <= capv  (for 2-index on slices, h may exceed len up to cap)
	if !st.branchOn(st.uleV(h, capv)) {
		st.rtPanic(fmt.Sprintf("slice bounds out of range [:%s] with capacity %d", valueString(h), capv))
	}
	if !st.branchOn(st.uleV(l, h)) {
		st.rtPanic(fmt.Sprintf("slice bounds out of range [%d:%s]", l, valueString(h)))
	}
	ns := Slice{obj: s.obj, off: s.off + int(l)*s.esz, len: st.subV(h, l), cap: int(capv - l), esz: s.esz}
	if s.obj == nil {
		ns.nil_ = s.nil_
	}
	return ns
}

// ---------- maps ----------

func (st *State) newMap(mt *types.Map) *MapObj {
	st.nextObj++
	return &MapObj{id: st.nextObj, index: map[string]int{}, ktype: mt.Key(), vtype: mt.Elem()}
}

func keyString(v Value, sb *strings.Builder) bool {
	switch x := v.(type) {
	case uint64:
		fmt.Fprintf(sb, "i%d;", x)
	case bool:
		fmt.Fprintf(sb, "b%v;", x)
	case float64:
		fmt.Fprintf(sb, "f%x;", math.Float64bits(x))
	case string:
		fmt.Fprintf(sb, "s%d:%s;", len(x), x)
	case Pointer:
		if x.sidx != nil {
			return false
		}
		if x.obj == nil {
			sb.WriteString("pnil;")
		} else {
			fmt.Fprintf(sb, "p%d+%d;", x.obj.id, x.off)
		}
	case Agg:
		sb.WriteString("{")
		for _, e := range x {
			if !keyString(e, sb) {
				return false
			}
		}
		sb.WriteString("}")
	case Iface:
		if x.typ == nil {
			sb.WriteString("inil;")
		} else {
			fmt.Fprintf(sb, "I%s:", x.typ.String())
			if !keyString(x.val, sb) {
				return false
			}
		}
	case *Closure, *MapObj, *ChanObj:
		fmt.Fprintf(sb, "r%p;", x)
	case *opaqueStr:
		if x.inj != nil {
			return false // member of an injective family: equality is decided on its arguments
		}
		fmt.Fprintf(sb, "o%d;", x.id)
	default:
		return false
	}
	return true
}

func concreteKey(v Value) (string, bool) {
	var sb strings.Builder
	ok := keyString(v, &sb)
	return sb.String(), ok
}

// mapFind returns the index of the entry equal to key, or -1. May fork.
func (st *State) mapFind(m *MapObj, key Value) int {
	ks, conc := concreteKey(key)
	if conc {
		if i, ok := m.index[ks]; ok && !m.entries[i].dead {
			return i
		}
	}
	if conc && m.nsym == 0 {
		return -1
	}
	for i := len(m.entries) - 1; i >= 0; i-- {
		e := &m.entries[i]
		if e.dead {
			continue
		}
		if conc && !e.sym {
			continue // concrete vs concrete handled by index
		}
		eq := st.equal(m.ktype, key, e.key)
		if b, ok := eq.(bool); ok {
			if b {
				return i
			}
			continue
		}
		if st.branchOn(eq) {
			return i
		}
	}
	return -1
}

func (st *State) mapUpdate(m *MapObj, key, val Value) {
	st.raceMap(m, true)
	i := st.mapFind(m, key)
	if i >= 0 {
		old := m.entries[i].val
		m.entries[i].val = val
		st.trailFunc(func() { m.entries[i].val = old })
		return
	}
	ks, conc := concreteKey(key)
	m.entries = append(m.entries, mapEntry{key: key, val: val, sym: !conc})
	n := len(m.entries) - 1
	if !conc {
		m.nsym++
	}
	var oldIdx int
	var hadIdx bool
	if conc {
		oldIdx, hadIdx = m.index[ks]
		m.index[ks] = n
	}
	st.trailFunc(func() {
		m.entries = m.entries[:n]
		if !conc {
			m.nsym--
		}
		if conc {
			if hadIdx {
				m.index[ks] = oldIdx
			} else {
				delete(m.index, ks)
			}
		}
	})
}

func (st *State) mapDelete(m *MapObj, key Value) {
	if m == nil {
		return
	}
	st.raceMap(m, true)
	i := st.mapFind(m, key)
	if i >= 0 {
		m.entries[i].dead = true
		st.trailFunc(func() { m.entries[i].dead = false })
	}
}

func (st *State) mapLen(m *MapObj) int {
	if m == nil {
		return 0
	}
	n := 0
	for _, e := range m.entries {
		if !e.dead {
			n++
		}
	}
	return n
}

func (st *State) lookup(fr *Frame, x *ssa.Lookup) Value {
	base := st.get(fr, x.X)
	if isString(x.X.Type()) {
		idx := st.to64(st.get(fr, x.Index), x.Index.Type())
		return st.stringIndex(base, idx)
	}
	m := base.(*MapObj)
	key := st.get(fr, x.Index)
	mt := x.X.Type().Underlying().(*types.Map)
	var val Value
	found := false
	st.raceMap(m, false)
	if m != nil {
		if i := st.mapFind(m, key); i >= 0 {
			val, found = m.entries[i].val, true
		}
	}
	if !found {
		val = st.zero(mt.Elem())
	}
	if x.CommaOk {
		return Tuple{val, found}
	}
	return val
}

// ---------- range ----------

type iterator struct {
	kind    int // 0 map, 1 string
	entries []mapEntry
	str     string
	pos     *Obj // slot 0: position
}

func (st *State) makeRange(v Value, t types.Type) Value {
	it := &iterator{pos: st.newObj(1, []Value{uint64(0)}, "iter")}
	if isString(t) {
		s, ok := v.(string)
		if !ok {
			st.unsupported("range over symbolic string")
		}
		it.kind, it.str = 1, s
		return it
	}
	m := v.(*MapObj)
	if m != nil {
		for _, e := range m.entries {
			if !e.dead {
				it.entries = append(it.entries, e)
			}
		}
	}
	return it
}

func (st *State) next(x *ssa.Next, v Value) Value {
	it := v.(*iterator)
	pos := int(it.pos.slots[0].(uint64))
	if x.IsString {
		if pos >= len(it.str) {
			return Tuple{false, uint64(0), uint64(0)}
		}
		var r rune
		var sz int
		for i, c := range it.str[pos:] {
			if i == 0 {
				r = c
				sz = len(string(c))
				if c == 0xFFFD && it.str[pos] != 0xEF {
					sz = 1
				}
			}
			break
		}
		st.setSlot(it.pos, 0, uint64(pos+sz))
		return Tuple{true, uint64(pos), uint64(uint32(r))}
	}
	tt := x.Type().(*types.Tuple)
	if pos >= len(it.entries) {
		return Tuple{false, st.zeroOrNil(tt.At(1).Type()), st.zeroOrNil(tt.At(2).Type())}
	}
	e := it.entries[pos]
	st.setSlot(it.pos, 0, uint64(pos+1))
	return Tuple{true, e.key, e.val}
}

func (st *State) zeroOrNil(t types.Type) Value {
	if b, ok := t.(*types.Basic); ok && b.Kind() == types.Invalid {
		return nil
	}
	return st.zero(t)
}
