package main

// Environment models: intrinsics of the harness runtime (package zzverif), builtins,
// and native models for time, sync, atomic, fmt, errors, unique, bytealg, math.

import (
	"fmt"
	"net"
	"go/token"
	"go/types"
	"math"
	"math/bits"
	"strconv"
	"strings"

	"golang.org/x/tools/go/ssa"
)

const verifPkg = "github.com/DataDog/datadog-traceroute/zzverif"

type nativeFn func(st *State, g *Goroutine, fr *Frame, fn *ssa.Function, args []Value) (Value, status)

var natives map[string]nativeFn

func fnKey(fn *ssa.Function) string {
	if o := fn.Origin(); o != nil {
		return o.String()
	}
	return fn.String()
}

func (st *State) tryNativeProbe(fn *ssa.Function) (Value, status, bool) {
	key := fnKey(fn)
	if _, ok := natives[key]; ok {
		return nil, stNext, true
	}
	return nil, stNext, false
}

func (st *State) tryNative(g *Goroutine, fr *Frame, fn *ssa.Function, args []Value) (Value, status, bool) {
	if fn.Pkg != nil && fn.Name() == "init" && fn.Parent() == nil && fn.Signature.Recv() == nil && fn == fn.Pkg.Func("init") {
		st.ensureInitFromCall(fn.Pkg)
		return nil, stNext, true
	}
	key := fnKey(fn)
	if st.job != nil {
		st.job.funcs[key]++
	}
	if r, ok := st.eng.redirects[key]; ok && (st.job == nil || st.job.Params["noredirect"] == "" || !strings.Contains(key, st.job.Params["noredirect"])) {
		target := st.eng.lookupFunc(r)
		if target == nil {
			st.unsupported("redirect target %s not found (the harness package that models %s is not loaded)", r, key)
		}
		st.ensureInit(target.Pkg)
		st.pushFrame(g, target, args, nil, fr.fi.idx[fr.block.Instrs[fr.ip].(ssa.Value)])
		return nil, stJumped, true
	}
	if nf, ok := natives[key]; ok {
		v, s := nf(st, g, fr, fn, args)
		if s != stFallback {
			return v, s, true
		}
	}
	if fn.Pkg != nil {
		path := fn.Pkg.Pkg.Path()
		switch path {
		case "github.com/DataDog/datadog-traceroute/log":
			return st.zeroResults(fn), stNext, true
		}
	}
	if len(fn.Blocks) == 0 {
		st.unsupported("no body and no model for %s", key)
	}
	return nil, stNext, false
}

func (e *Engine) lookupFunc(name string) *ssa.Function {
	// name: "pkgpath.Func"
	i := strings.LastIndex(name, ".")
	pkg := e.prog.ImportedPackage(name[:i])
	if pkg == nil {
		return nil
	}
	return pkg.Func(name[i+1:])
}

func (st *State) callNativeByName(g *Goroutine, fr *Frame, cl *Closure, args []Value) (Value, status) {
	if strings.HasPrefix(cl.native, "builtin:") {
		if cl.native == "builtin:close" {
			if c, ok := args[0].(*ChanObj); ok && c != nil && st.yieldPoint(g, c.st) {
				return nil, stYield
			}
		}
		return st.builtin(g, fr, cl.native[8:], args), stNext
	}
	st.unsupported("native closure %s", cl.native)
	return nil, stEnd
}

// ---------- builtins ----------

func (st *State) builtin(g *Goroutine, fr *Frame, name string, args []Value) Value {
	switch name {
	case "len":
		switch x := args[0].(type) {
		case Slice:
			return x.len
		case string:
			return uint64(len(x))
		case *SymStr:
			return uint64(len(x.b))
		case *MapObj:
			return uint64(st.mapLen(x))
		case *ChanObj:
			if x == nil {
				return uint64(0)
			}
			return uint64(len(x.buf()))
		case Agg:
			// array: need type; resolved by caller types
			in := fr.block.Instrs[fr.ip].(*ssa.Call)
			at := in.Call.Args[0].Type().Underlying().(*types.Array)
			return uint64(at.Len())
		case Pointer:
			in := fr.block.Instrs[fr.ip].(*ssa.Call)
			at := in.Call.Args[0].Type().Underlying().(*types.Pointer).Elem().Underlying().(*types.Array)
			return uint64(at.Len())
		case *opaqueStr:
			st.unsupported("len of opaque string")
		}
	case "cap":
		switch x := args[0].(type) {
		case Slice:
			return uint64(x.cap)
		case *ChanObj:
			return uint64(x.cap)
		}
	case "append":
		return st.appendOp(fr, args)
	case "copy":
		return st.copyOp(args[0].(Slice), args[1])
	case "delete":
		st.mapDelete(args[0].(*MapObj), args[1])
		return nil
	case "close":
		st.closeChan(args[0].(*ChanObj))
		return nil
	case "recover":
		if g.panic != nil && !g.panic.recovered && g.panic.val != nil {
			g.panic.recovered = true
			return g.panic.val
		}
		return Iface{}
	case "print", "println":
		return nil
	case "min", "max":
		in := fr.block.Instrs[fr.ip].(*ssa.Call)
		t := in.Call.Args[0].Type()
		res := args[0]
		for _, a := range args[1:] {
			op := "<"
			_ = op
			var lt Value
			if name == "min" {
				lt = st.binop(token.LSS, t, t, a, res)
			} else {
				lt = st.binop(token.LSS, t, t, res, a)
			}
			if b, ok := lt.(bool); ok {
				if b {
					res = a
				}
			} else {
				m, ok := st.mergeTyped(lt.(*Term), a, res, t)
				if !ok {
					st.unsupported("min/max merge")
				}
				res = m
			}
		}
		return res
	case "clear":
		switch x := args[0].(type) {
		case *MapObj:
			for i := range x.entries {
				if !x.entries[i].dead {
					i := i
					x.entries[i].dead = true
					st.trailFunc(func() { x.entries[i].dead = false })
				}
			}
		case Slice:
			n := int(st.concrete(x.len))
			in := fr.block.Instrs[fr.ip].(*ssa.Call)
			et := in.Call.Args[0].Type().Underlying().(*types.Slice).Elem()
			l := st.eng.layout(et)
			for i := 0; i < n; i++ {
				for k := 0; k < l.n; k++ {
					st.setSlot(x.obj, x.off+i*x.esz+k, l.zeros[k])
				}
			}
		}
		return nil
	case "String": // unsafe.String(ptr, len)
		p := args[0].(Pointer)
		n := int(st.concrete(args[1]))
		if n == 0 {
			return ""
		}
		bs := make([]Value, n)
		for i := 0; i < n; i++ {
			bs[i] = p.obj.slots[p.off+i]
		}
		return st.mkString(bs)
	case "SliceData":
		sl := args[0].(Slice)
		if sl.obj == nil {
			return Pointer{}
		}
		return Pointer{obj: sl.obj, off: sl.off}
	case "Slice": // unsafe.Slice(ptr, len)
		p := args[0].(Pointer)
		n := int(st.concrete(args[1]))
		if p.obj == nil {
			return Slice{nil_: true, len: uint64(0)}
		}
		esz := 1
		if in, ok := fr.block.Instrs[fr.ip].(*ssa.Call); ok {
			if pt, ok := in.Call.Args[0].Type().Underlying().(*types.Pointer); ok {
				esz = st.eng.layout(pt.Elem()).n
			}
		}
		return Slice{obj: p.obj, off: p.off, len: uint64(n), cap: n, esz: esz}
	case "StringData":
		str := args[0]
		bs := st.strBytes(st.plainString(str))
		sl := st.makeSlice(types.Typ[types.Uint8], len(bs), len(bs))
		copy(sl.obj.slots, bs)
		return Pointer{obj: sl.obj}
	case "ssa:wrapnilchk":
		if p, ok := args[0].(Pointer); ok && p.obj == nil {
			st.rtPanic("value method called using nil pointer")
		}
		return args[0]
	}
	st.unsupported("builtin %s on %T", name, args[0])
	return nil
}

func (st *State) appendOp(fr *Frame, args []Value) Value {
	dst := args[0].(Slice)
	in, _ := fr.block.Instrs[fr.ip].(*ssa.Call)
	var et types.Type
	if in != nil {
		et = in.Call.Args[0].Type().Underlying().(*types.Slice).Elem()
	} else if d, ok := fr.block.Instrs[fr.ip].(*ssa.Defer); ok {
		et = d.Call.Args[0].Type().Underlying().(*types.Slice).Elem()
	}
	l := st.eng.layout(et)
	// source
	var srcVals func(i int, k int) Value
	var srcLen Value
	srcMax := 0
	switch s := args[1].(type) {
	case Slice:
		srcLen = s.len
		srcMax = st.sliceLenHi(s)
		srcVals = func(i, k int) Value { return s.obj.slots[s.off+i*s.esz+k] }
		if s.obj == nil {
			srcMax = 0
		}
	case string, *SymStr:
		bs := st.strBytes(s)
		srcLen = uint64(len(bs))
		srcMax = len(bs)
		srcVals = func(i, k int) Value { return bs[i] }
	default:
		st.unsupported("append source %T", args[1])
	}
	dlen := int(st.concrete(dst.len))
	if _, symLen := srcLen.(*Term); symLen && dst.cap > dlen {
		srcLen = st.concrete(srcLen)
	}
	if sl, ok := srcLen.(uint64); ok {
		n := int(sl)
		if n == 0 {
			return dst
		}
		if dlen+n <= dst.cap {
			for i := 0; i < n; i++ {
				for k := 0; k < l.n; k++ {
					st.setSlot(dst.obj, dst.off+(dlen+i)*l.n+k, srcVals(i, k))
				}
			}
			dst.len = uint64(dlen + n)
			return dst
		}
		nc := dst.cap * 2
		if nc < dlen+n {
			nc = dlen + n
		}
		if nc < 4 && l.n == 1 {
			nc = dlen + n
		}
		ns := st.makeSlice(et, dlen+n, nc)
		if st.isModelFn(fr.fn) {
			ns.obj.syncObj = true
		}
		for i := 0; i < dlen; i++ {
			for k := 0; k < l.n; k++ {
				ns.obj.slots[i*l.n+k] = dst.obj.slots[dst.off+i*l.n+k]
			}
		}
		for i := 0; i < n; i++ {
			for k := 0; k < l.n; k++ {
				ns.obj.slots[(dlen+i)*l.n+k] = srcVals(i, k)
			}
		}
		return ns
	}
	// symbolic source length, destination without spare capacity: fresh allocation
	ns := st.makeSlice(et, 0, dlen+srcMax)
	for i := 0; i < dlen; i++ {
		for k := 0; k < l.n; k++ {
			ns.obj.slots[i*l.n+k] = dst.obj.slots[dst.off+i*l.n+k]
		}
	}
	for i := 0; i < srcMax; i++ {
		for k := 0; k < l.n; k++ {
			ns.obj.slots[(dlen+i)*l.n+k] = srcVals(i, k)
		}
	}
	ns.len = st.addV(uint64(dlen), srcLen)
	return ns
}

func (st *State) copyOp(dst Slice, src Value) Value {
	var srcLen Value
	var srcAt func(i, k int) Value
	esz := dst.esz
	switch s := src.(type) {
	case Slice:
		srcLen = s.len
		srcAt = func(i, k int) Value { return s.obj.slots[s.off+i*s.esz+k] }
		if s.obj == nil {
			return uint64(0)
		}
	case string, *SymStr:
		bs := st.strBytes(s)
		srcLen = uint64(len(bs))
		srcAt = func(i, k int) Value { return bs[i] }
	default:
		st.unsupported("copy source %T", src)
	}
	if dst.obj == nil {
		return uint64(0)
	}
	dl, dconc := dst.len.(uint64)
	sl, sconc := srcLen.(uint64)
	if dconc && sconc {
		n := int(dl)
		if int(sl) < n {
			n = int(sl)
		}
		tmp := make([]Value, n*esz)
		for i := 0; i < n; i++ {
			for k := 0; k < esz; k++ {
				tmp[i*esz+k] = srcAt(i, k)
			}
		}
		for i := 0; i < n*esz; i++ {
			st.setSlot(dst.obj, dst.off+i, tmp[i])
		}
		return uint64(n)
	}
	// symbolic: n = min(dl, sl)
	dT, sT := st.intTerm(dst.len, 64), st.intTerm(srcLen, 64)
	nT := st.tp.Ite(st.tp.Ult(dT, sT), dT, sT)
	_, hi := st.boundsOf(nT)
	maxN := dst.cap
	if ss, ok := src.(Slice); ok && ss.cap < maxN {
		maxN = ss.cap
	}
	if hi < uint64(maxN) {
		maxN = int(hi)
	}
	tmp := make([]Value, maxN*esz)
	for i := 0; i < maxN; i++ {
		for k := 0; k < esz; k++ {
			tmp[i*esz+k] = srcAt(i, k)
		}
	}
	for i := 0; i < maxN; i++ {
		cond := st.tp.Ult(st.tp.BVConst(64, uint64(i)), nT)
		for k := 0; k < esz; k++ {
			old := dst.obj.slots[dst.off+i*esz+k]
			m, ok := st.mergeValues(cond, tmp[i*esz+k], old)
			if !ok {
				// try typed via byte assumption
				m2, ok2 := st.mergeTyped(cond, tmp[i*esz+k], old, types.Typ[types.Uint8])
				if !ok2 {
					panic(needConcrete{nT})
				}
				m = m2
			}
			st.setSlot(dst.obj, dst.off+i*esz+k, m)
		}
	}
	return norm(nT)
}

// ---------- nondeterminism / intrinsics ----------

func (st *State) freshVar(tag, kind string, s Sort) *Term {
	name := fmt.Sprintf("%s#%d", tag, len(st.draws))
	t := st.tp.Var(name, s)
	st.vars = append(st.vars, t)
	st.draws = append(st.draws, Draw{Tag: tag, Kind: kind, Term: t})
	return t
}

func argString(st *State, v Value) string {
	s, ok := v.(string)
	if !ok {
		st.unsupported("intrinsic needs a constant string argument")
	}
	return s
}

func init() {
	natives = map[string]nativeFn{}
	V := func(name string, f nativeFn) { natives[verifPkg+"."+name] = f }
	nondet := func(kind string, w int) nativeFn {
		return func(st *State, g *Goroutine, fr *Frame, fn *ssa.Function, args []Value) (Value, status) {
			return st.freshVar(argString(st, args[0]), kind, BV(w)), stNext
		}
	}
	V("U8", nondet("u8", 8))
	V("U16", nondet("u16", 16))
	V("U32", nondet("u32", 32))
	V("U64", nondet("u64", 64))
	V("Int", nondet("int", 64))
	V("I64", nondet("i64", 64))
	V("Bool", func(st *State, g *Goroutine, fr *Frame, fn *ssa.Function, args []Value) (Value, status) {
		return st.freshVar(argString(st, args[0]), "bool", BoolSort), stNext
	})
	V("F64", func(st *State, g *Goroutine, fr *Frame, fn *ssa.Function, args []Value) (Value, status) {
		return st.freshVar(argString(st, args[0]), "f64", FP(64)), stNext
	})
	V("Bytes", func(st *State, g *Goroutine, fr *Frame, fn *ssa.Function, args []Value) (Value, status) {
		tag := argString(st, args[0])
		n := int(st.concrete(args[1]))
		s := st.makeSlice(types.Typ[types.Uint8], n, n)
		d := Draw{Tag: tag, Kind: "bytes"}
		base := len(st.draws)
		for i := 0; i < n; i++ {
			t := st.tp.Var(fmt.Sprintf("%s#%d.%d", tag, base, i), BV(8))
			st.vars = append(st.vars, t)
			d.Sub = append(d.Sub, t)
			s.obj.slots[i] = t
		}
		st.draws = append(st.draws, d)
		return s, stNext
	})
	V("Assume", func(st *State, g *Goroutine, fr *Frame, fn *ssa.Function, args []Value) (Value, status) {
		return nil, st.assume(args[0])
	})
	V("Assert", func(st *State, g *Goroutine, fr *Frame, fn *ssa.Function, args []Value) (Value, status) {
		return nil, st.assert(args[0], argString(st, args[1]), "", nil)
	})
	V("AssertKF", func(st *State, g *Goroutine, fr *Frame, fn *ssa.Function, args []Value) (Value, status) {
		return nil, st.assert(args[0], argString(st, args[1]), argString(st, args[2]), args[3])
	})
	V("Reach", func(st *State, g *Goroutine, fr *Frame, fn *ssa.Function, args []Value) (Value, status) {
		st.reach(argString(st, args[0]))
		return nil, stNext
	})
	V("Fail", func(st *State, g *Goroutine, fr *Frame, fn *ssa.Function, args []Value) (Value, status) {
		st.recordViolation(argString(st, args[0]), "fail", st.where())
		st.job.assertStat(argString(st, args[0])).Failed++
		st.endReason, st.endMsg = endAssertStop, argString(st, args[0])
		return nil, stEnd
	})
	V("Param", func(st *State, g *Goroutine, fr *Frame, fn *ssa.Function, args []Value) (Value, status) {
		return st.job.Params[argString(st, args[0])], stNext
	})
	V("ParamInt", func(st *State, g *Goroutine, fr *Frame, fn *ssa.Function, args []Value) (Value, status) {
		s, ok := st.job.Params[argString(st, args[0])]
		if !ok {
			return args[1], stNext
		}
		n, err := strconv.ParseInt(s, 0, 64)
		if err != nil {
			st.unsupported("bad int param %q", s)
		}
		return uint64(n), stNext
	})
	boolFold := func(isAnd bool) nativeFn {
		return func(st *State, g *Goroutine, fr *Frame, fn *ssa.Function, args []Value) (Value, status) {
			s := args[0].(Slice)
			var res Value = isAnd
			if s.obj == nil {
				return res, stNext
			}
			n := int(st.concrete(s.len))
			for i := 0; i < n; i++ {
				v := s.obj.slots[s.off+i]
				if isAnd {
					res = st.andV(res, v)
				} else {
					res = st.notV(st.andV(st.notV(res), st.notV(v)))
				}
			}
			return res, stNext
		}
	}
	V("All", boolFold(true))
	V("Any", boolFold(false))
	V("Implies", func(st *State, g *Goroutine, fr *Frame, fn *ssa.Function, args []Value) (Value, status) {
		return st.notV(st.andV(args[0], st.notV(args[1]))), stNext
	})
	V("BytesEq", func(st *State, g *Goroutine, fr *Frame, fn *ssa.Function, args []Value) (Value, status) {
		a, b := args[0].(Slice), args[1].(Slice)
		na, nb := st.concrete(a.len), st.concrete(b.len)
		if na != nb {
			return false, stNext
		}
		var res Value = true
		for i := 0; i < int(na); i++ {
			res = st.andV(res, st.equal(types.Typ[types.Uint8], a.obj.slots[a.off+i], b.obj.slots[b.off+i]))
		}
		return res, stNext
	})
	V("Dump", func(st *State, g *Goroutine, fr *Frame, fn *ssa.Function, args []Value) (Value, status) {
		if t, ok := args[1].(*Term); ok {
			fmt.Printf("[dump %s] %s\n", argString(st, args[0]), printTermShort(t, 40))
		} else {
			fmt.Printf("[dump %s] %s\n", argString(st, args[0]), valueString(args[1]))
		}
		return nil, stNext
	})
	fsel := func(isMin bool) nativeFn {
		return func(st *State, g *Goroutine, fr *Frame, fn *ssa.Function, args []Value) (Value, status) {
			f64 := types.Typ[types.Float64]
			var c Value
			if isMin {
				c = st.binop(token.LSS, f64, f64, args[1], args[0])
			} else {
				c = st.binop(token.GTR, f64, f64, args[1], args[0])
			}
			if b, ok := c.(bool); ok {
				if b {
					return args[1], stNext
				}
				return args[0], stNext
			}
			return st.tp.Ite(c.(*Term), st.toTerm(args[1], f64), st.toTerm(args[0], f64)), stNext
		}
	}
	V("MinF", fsel(true))
	V("MaxF", fsel(false))
	V("LastUUID", func(st *State, g *Goroutine, fr *Frame, fn *ssa.Function, args []Value) (Value, status) {
		for i := len(st.draws) - 1; i >= 0; i-- {
			if st.draws[i].Tag == "uuid" {
				s := st.makeSlice(types.Typ[types.Uint8], 16, 16)
				for k, t := range st.draws[i].Sub {
					s.obj.slots[k] = t
				}
				return s, stNext
			}
		}
		st.unsupported("LastUUID without a uuid draw")
		return nil, stEnd
	})
	V("UUIDsDiffer", func(st *State, g *Goroutine, fr *Frame, fn *ssa.Function, args []Value) (Value, status) {
		var us [][]*Term
		for _, d := range st.draws {
			if d.Tag == "uuid" {
				us = append(us, d.Sub)
			}
		}
		if len(us) < 2 {
			return true, stNext
		}
		a, b := us[len(us)-2], us[len(us)-1]
		eq := st.tp.True
		for i := range a {
			eq = st.tp.And(eq, st.tp.Eq(a[i], b[i]))
		}
		return norm(st.tp.Not(eq)), stNext
	})
	V("Symbolic", func(st *State, g *Goroutine, fr *Frame, fn *ssa.Function, args []Value) (Value, status) {
		return true, stNext
	})
	V("ClockAdvance", func(st *State, g *Goroutine, fr *Frame, fn *ssa.Function, args []Value) (Value, status) {
		st.now = st.addV(st.now, args[0])
		return nil, stNext
	})
	V("Sleep", func(st *State, g *Goroutine, fr *Frame, fn *ssa.Function, args []Value) (Value, status) {
		return st.sleep(g, args[0])
	})
	V("TimeNow", func(st *State, g *Goroutine, fr *Frame, fn *ssa.Function, args []Value) (Value, status) {
		return st.timeValue(st.now), stNext
	})
	V("Until", func(st *State, g *Goroutine, fr *Frame, fn *ssa.Function, args []Value) (Value, status) {
		return st.subV(args[0].(Agg)[1], st.now), stNext
	})
	V("NowNs", func(st *State, g *Goroutine, fr *Frame, fn *ssa.Function, args []Value) (Value, status) {
		return st.now, stNext
	})
	V("Yield", func(st *State, g *Goroutine, fr *Frame, fn *ssa.Function, args []Value) (Value, status) {
		if st.yieldPoint(g, nil) {
			return nil, stYield
		}
		return nil, stNext
	})
	V("YieldOn", func(st *State, g *Goroutine, fr *Frame, fn *ssa.Function, args []Value) (Value, status) {
		// scheduling point for an operation on the object behind the pointer (write = it may change what others observe)
		var o *Obj
		if iv, ok := args[0].(Iface); ok {
			if p, ok := iv.val.(Pointer); ok {
				o = p.obj
			}
		}
		w := st.branchOn(args[1])
		if st.yieldPoint(g, o, w) {
			return nil, stYield
		}
		return nil, stNext
	})
	V("LiveGoroutines", func(st *State, g *Goroutine, fr *Frame, fn *ssa.Function, args []Value) (Value, status) {
		n := 0
		for _, o := range st.gs {
			if o != g && o.status != gDone {
				n++
			}
		}
		return uint64(n), stNext
	})
	V("DeadlineChan", func(st *State, g *Goroutine, fr *Frame, fn *ssa.Function, args []Value) (Value, status) {
		// channel of struct{} that closes itself at the given virtual time (ns)
		c := st.newChan(0, types.NewStruct(nil, nil))
		c.st.slots[chTimerKind] = uint64(2)
		c.st.slots[chReadyAt] = args[0]
		return c, stNext
	})
	V("TimerChan", func(st *State, g *Goroutine, fr *Frame, fn *ssa.Function, args []Value) (Value, status) {
		tt := st.timeType()
		c := st.newChan(1, tt)
		c.st.slots[chTimerKind] = uint64(1)
		c.st.slots[chReadyAt] = args[0]
		return c, stNext
	})
	V("AsAssign", nativeAsAssign)
	V("IsComparable", func(st *State, g *Goroutine, fr *Frame, fn *ssa.Function, args []Value) (Value, status) {
		iv := args[0].(Iface)
		return iv.typ != nil && types.Comparable(iv.typ), stNext
	})
	V("Opaque", func(st *State, g *Goroutine, fr *Frame, fn *ssa.Function, args []Value) (Value, status) {
		return st.newOpaque(argString(st, args[0])), stNext
	})
	V("Concretize", func(st *State, g *Goroutine, fr *Frame, fn *ssa.Function, args []Value) (Value, status) {
		return st.concrete(args[0]), stNext
	})

	N := func(name string, f nativeFn) { natives[name] = f }
	noop := func(st *State, g *Goroutine, fr *Frame, fn *ssa.Function, args []Value) (Value, status) {
		return st.zeroResults(fn), stNext
	}
	// ---- time ----
	N("time.Now", func(st *State, g *Goroutine, fr *Frame, fn *ssa.Function, args []Value) (Value, status) {
		return st.timeValue(st.now), stNext
	})
	N("time.Since", func(st *State, g *Goroutine, fr *Frame, fn *ssa.Function, args []Value) (Value, status) {
		return st.subV(st.now, args[0].(Agg)[1]), stNext
	})
	N("time.Until", func(st *State, g *Goroutine, fr *Frame, fn *ssa.Function, args []Value) (Value, status) {
		return st.subV(args[0].(Agg)[1], st.now), stNext
	})
	N("(time.Time).Add", func(st *State, g *Goroutine, fr *Frame, fn *ssa.Function, args []Value) (Value, status) {
		return st.timeValue(st.addV(args[0].(Agg)[1], args[1])), stNext
	})
	N("(time.Time).Sub", func(st *State, g *Goroutine, fr *Frame, fn *ssa.Function, args []Value) (Value, status) {
		return st.subV(args[0].(Agg)[1], args[1].(Agg)[1]), stNext
	})
	N("(time.Time).IsZero", func(st *State, g *Goroutine, fr *Frame, fn *ssa.Function, args []Value) (Value, status) {
		return st.equal(types.Typ[types.Int64], args[0].(Agg)[1], uint64(0)), stNext
	})
	N("(time.Time).Before", func(st *State, g *Goroutine, fr *Frame, fn *ssa.Function, args []Value) (Value, status) {
		return st.timeLT(args[0].(Agg)[1], args[1].(Agg)[1]), stNext
	})
	N("(time.Time).After", func(st *State, g *Goroutine, fr *Frame, fn *ssa.Function, args []Value) (Value, status) {
		return st.timeLT(args[1].(Agg)[1], args[0].(Agg)[1]), stNext
	})
	N("(time.Time).Equal", func(st *State, g *Goroutine, fr *Frame, fn *ssa.Function, args []Value) (Value, status) {
		return st.equal(types.Typ[types.Int64], args[0].(Agg)[1], args[1].(Agg)[1]), stNext
	})
	N("(time.Time).UnixNano", func(st *State, g *Goroutine, fr *Frame, fn *ssa.Function, args []Value) (Value, status) {
		return args[0].(Agg)[1], stNext
	})
	N("time.Sleep", func(st *State, g *Goroutine, fr *Frame, fn *ssa.Function, args []Value) (Value, status) {
		return st.sleep(g, args[0])
	})
	N("time.After", func(st *State, g *Goroutine, fr *Frame, fn *ssa.Function, args []Value) (Value, status) {
		c := st.newChan(1, st.timeType())
		c.st.slots[chTimerKind] = uint64(1)
		c.st.slots[chReadyAt] = st.addV(st.now, args[0])
		return c, stNext
	})
	N("time.NewTimer", func(st *State, g *Goroutine, fr *Frame, fn *ssa.Function, args []Value) (Value, status) {
		c := st.newChan(1, st.timeType())
		c.st.slots[chTimerKind] = uint64(1)
		c.st.slots[chReadyAt] = st.addV(st.now, args[0])
		tt := st.eng.prog.ImportedPackage("time").Type("Timer").Type()
		p := st.allocType(tt, "timer")
		p.obj.slots[0] = c
		return p, stNext
	})
	N("(*time.Timer).Reset", func(st *State, g *Goroutine, fr *Frame, fn *ssa.Function, args []Value) (Value, status) {
		p := args[0].(Pointer)
		c := p.obj.slots[p.off].(*ChanObj)
		active := c.st.slots[chTimerKind].(uint64) != 0 && !c.st.slots[chFired].(bool)
		st.setSlot(c.st, chTimerKind, uint64(1))
		st.setSlot(c.st, chReadyAt, st.addV(st.now, args[1]))
		st.setSlot(c.st, chFired, false)
		st.setSlot(c.st, chBuf, Agg{})
		return active, stNext
	})
	N("(*time.Timer).Stop", func(st *State, g *Goroutine, fr *Frame, fn *ssa.Function, args []Value) (Value, status) {
		p := args[0].(Pointer)
		c := p.obj.slots[p.off].(*ChanObj)
		active := c.st.slots[chTimerKind].(uint64) != 0 && !c.st.slots[chFired].(bool)
		st.setSlot(c.st, chTimerKind, uint64(0))
		return active, stNext
	})
	N("(*github.com/cenkalti/backoff/v5.ExponentialBackOff).NextBackOff", func(st *State, g *Goroutine, fr *Frame, fn *ssa.Function, args []Value) (Value, status) {
		// model: any duration in [0, 4.5 s] (1.5 x the configured MaxInterval of 3 s); its float arithmetic is not the subject
		d := st.freshVar("backoff", "i64", BV(64))
		if st.job.Params["backoffSet"] == "1" {
			// coarse model: one of 0, 400 ms, 3 s
			p := st.tp
			st.addPC(p.Or(p.Eq(d, p.BVConst(64, 0)), p.Or(p.Eq(d, p.BVConst(64, 400_000_000)), p.Eq(d, p.BVConst(64, 3_000_000_000)))), false)
			return d, stNext
		}
		st.addPC(st.tp.Ule(d, st.tp.BVConst(64, 4_500_000_000)), false)
		return d, stNext
	})
	N("(*github.com/cenkalti/backoff/v5.ExponentialBackOff).Reset", noop)
	// ---- sync ----
	N("(*sync.Mutex).Lock", nativeLock)
	N("(*sync.Mutex).Unlock", nativeUnlock)
	N("(*sync.Mutex).TryLock", func(st *State, g *Goroutine, fr *Frame, fn *ssa.Function, args []Value) (Value, status) {
		p := args[0].(Pointer)
		if p.obj.slots[p.off].(uint64) == 0 {
			st.setSlot(p.obj, p.off, uint64(1))
			st.hbAcquire(p.obj, p.off)
			return true, stNext
		}
		return false, stNext
	})
	N("(*sync.RWMutex).Lock", func(st *State, g *Goroutine, fr *Frame, fn *ssa.Function, args []Value) (Value, status) {
		p := args[0].(Pointer)
		if st.yieldPoint(g, p.obj) {
			return nil, stYield
		}
		if p.obj.slots[p.off].(uint64) != 0 || p.obj.slots[p.off+4].(uint64) != 0 {
			g.waitOn, g.waitKind, g.phaseVal = p, waitRW, 0
			return nil, st.block(g, "rwmutex lock")
		}
		st.setSlot(p.obj, p.off, uint64(1))
		// happens-before of a read-write lock: a writer is ordered after every earlier writer (clock at off) and
		// every earlier reader (clock at off+4); readers are ordered after writers only, not after each other
		st.hbAcquire(p.obj, p.off)
		st.hbAcquire(p.obj, p.off+4)
		return nil, stNext
	})
	N("(*sync.RWMutex).Unlock", func(st *State, g *Goroutine, fr *Frame, fn *ssa.Function, args []Value) (Value, status) {
		p := args[0].(Pointer)
		if st.yieldPoint(g, p.obj) {
			return nil, stYield
		}
		if p.obj.slots[p.off].(uint64) == 0 {
			st.rtPanic("sync: Unlock of unlocked RWMutex")
		}
		st.hbRelease(p.obj, p.off)
		st.setSlot(p.obj, p.off, uint64(0))
		return nil, stNext
	})
	N("(*sync.RWMutex).RLock", func(st *State, g *Goroutine, fr *Frame, fn *ssa.Function, args []Value) (Value, status) {
		p := args[0].(Pointer)
		if st.yieldPoint(g, p.obj, false) {
			return nil, stYield
		}
		if p.obj.slots[p.off].(uint64) != 0 {
			g.waitOn, g.waitKind, g.phaseVal = p, waitRW, 1
			return nil, st.block(g, "rwmutex rlock")
		}
		st.setSlot(p.obj, p.off+4, p.obj.slots[p.off+4].(uint64)+1)
		st.hbAcquire(p.obj, p.off)
		return nil, stNext
	})
	N("(*sync.RWMutex).RUnlock", func(st *State, g *Goroutine, fr *Frame, fn *ssa.Function, args []Value) (Value, status) {
		p := args[0].(Pointer)
		if st.yieldPoint(g, p.obj, false) {
			return nil, stYield
		}
		if p.obj.slots[p.off+4].(uint64) == 0 {
			st.rtPanic("sync: RUnlock of unlocked RWMutex")
		}
		st.hbRelease(p.obj, p.off+4)
		st.setSlot(p.obj, p.off+4, p.obj.slots[p.off+4].(uint64)-1)
		return nil, stNext
	})
	N("(*sync.WaitGroup).Add", func(st *State, g *Goroutine, fr *Frame, fn *ssa.Function, args []Value) (Value, status) {
		p := args[0].(Pointer)
		if st.yieldPoint(g, p.obj) {
			return nil, stYield
		}
		n := int64(st.concrete(args[1]))
		c := int64(p.obj.slots[p.off].(uint64)) + n
		if c < 0 {
			st.rtPanic("sync: negative WaitGroup counter")
		}
		st.hbRelease(p.obj, p.off)
		st.setSlot(p.obj, p.off, uint64(c))
		return nil, stNext
	})
	N("(*sync.WaitGroup).Done", func(st *State, g *Goroutine, fr *Frame, fn *ssa.Function, args []Value) (Value, status) {
		p := args[0].(Pointer)
		if st.yieldPoint(g, p.obj) {
			return nil, stYield
		}
		c := int64(p.obj.slots[p.off].(uint64)) - 1
		if c < 0 {
			st.rtPanic("sync: negative WaitGroup counter")
		}
		st.hbRelease(p.obj, p.off)
		st.setSlot(p.obj, p.off, uint64(c))
		return nil, stNext
	})
	N("(*sync.WaitGroup).Wait", func(st *State, g *Goroutine, fr *Frame, fn *ssa.Function, args []Value) (Value, status) {
		p := args[0].(Pointer)
		if st.yieldPoint(g, p.obj, false) {
			return nil, stYield
		}
		if p.obj.slots[p.off].(uint64) != 0 {
			g.waitOn, g.waitKind = p, waitWG
			return nil, st.block(g, "waitgroup wait")
		}
		st.hbAcquire(p.obj, p.off)
		return nil, stNext
	})
	N("(*sync.Once).Do", func(st *State, g *Goroutine, fr *Frame, fn *ssa.Function, args []Value) (Value, status) {
		p := args[0].(Pointer)
		if st.yieldPoint(g, p.obj) {
			return nil, stYield
		}
		if p.obj.slots[p.off].(uint64) != 0 {
			st.hbAcquire(p.obj, p.off)
			return nil, stNext
		}
		st.setSlot(p.obj, p.off, uint64(1))
		st.hbRelease(p.obj, p.off)
		cl := args[1].(*Closure)
		if cl == nil {
			st.rtPanic("nil func in Once.Do")
		}
		st.pushFrame(g, cl.fn, nil, cl.env, -1)
		return nil, stJumped
	})
	// ---- atomic ----
	for _, ty := range []string{"Uint32", "Int32", "Uint64", "Int64", "Uintptr"} {
		ty := ty
		w := 64
		if strings.HasSuffix(ty, "32") {
			w = 32
		}
		N("(*sync/atomic."+ty+").Add", func(st *State, g *Goroutine, fr *Frame, fn *ssa.Function, args []Value) (Value, status) {
			p := args[0].(Pointer)
			if st.yieldPoint(g, p.obj) {
			return nil, stYield
		}
		st.atomicAccess(p)
			var nv Value
			x, xc := p.obj.slots[p.off].(uint64)
			y, yc := args[1].(uint64)
			if xc && yc {
				nv = (x + y) & mask(w)
			} else {
				nv = norm(st.tp.Add(st.intTerm(p.obj.slots[p.off], w), st.intTerm(args[1], w)))
			}
			st.setSlot(p.obj, p.off, nv)
			return nv, stNext
		})
		N("(*sync/atomic."+ty+").Load", func(st *State, g *Goroutine, fr *Frame, fn *ssa.Function, args []Value) (Value, status) {
			p := args[0].(Pointer)
			if st.yieldPoint(g, p.obj, false) {
			return nil, stYield
		}
		st.atomicAccess(p)
			return p.obj.slots[p.off], stNext
		})
		N("(*sync/atomic."+ty+").Store", func(st *State, g *Goroutine, fr *Frame, fn *ssa.Function, args []Value) (Value, status) {
			p := args[0].(Pointer)
			if st.yieldPoint(g, p.obj) {
			return nil, stYield
		}
		st.atomicAccess(p)
			st.setSlot(p.obj, p.off, args[1])
			return nil, stNext
		})
		N("(*sync/atomic."+ty+").CompareAndSwap", func(st *State, g *Goroutine, fr *Frame, fn *ssa.Function, args []Value) (Value, status) {
			p := args[0].(Pointer)
			if st.yieldPoint(g, p.obj) {
			return nil, stYield
		}
		st.atomicAccess(p)
			eq := st.equal(types.Typ[types.Uint64], st.to64w(p.obj.slots[p.off], w), st.to64w(args[1], w))
			if st.branchOn(eq) {
				st.setSlot(p.obj, p.off, args[2])
				return true, stNext
			}
			return false, stNext
		})
		N("(*sync/atomic."+ty+").Swap", func(st *State, g *Goroutine, fr *Frame, fn *ssa.Function, args []Value) (Value, status) {
			p := args[0].(Pointer)
			if st.yieldPoint(g, p.obj) {
			return nil, stYield
		}
		st.atomicAccess(p)
			old := p.obj.slots[p.off]
			st.setSlot(p.obj, p.off, args[1])
			return old, stNext
		})
	}
	N("(*sync/atomic.Bool).Load", func(st *State, g *Goroutine, fr *Frame, fn *ssa.Function, args []Value) (Value, status) {
		p := args[0].(Pointer)
		if st.yieldPoint(g, p.obj) {
			return nil, stYield
		}
		st.atomicAccess(p)
		return st.notV(st.equal(types.Typ[types.Uint32], p.obj.slots[p.off], uint64(0))), stNext
	})
	N("(*sync/atomic.Bool).Store", func(st *State, g *Goroutine, fr *Frame, fn *ssa.Function, args []Value) (Value, status) {
		p := args[0].(Pointer)
		if st.yieldPoint(g, p.obj) {
			return nil, stYield
		}
		st.atomicAccess(p)
		b := st.branchOn(args[1])
		if b {
			st.setSlot(p.obj, p.off, uint64(1))
		} else {
			st.setSlot(p.obj, p.off, uint64(0))
		}
		return nil, stNext
	})
	N("(*sync/atomic.Pointer).Load", func(st *State, g *Goroutine, fr *Frame, fn *ssa.Function, args []Value) (Value, status) {
		p := args[0].(Pointer)
		if st.yieldPoint(g, p.obj) {
			return nil, stYield
		}
		st.atomicAccess(p)
		return st.ptrSlot(p), stNext
	})
	natives["(*sync/atomic.Pointer[T]).Load"] = natives["(*sync/atomic.Pointer).Load"]
	N("os.Getenv", func(st *State, g *Goroutine, fr *Frame, fn *ssa.Function, args []Value) (Value, status) {
		return "", stNext
	})
	N("os.LookupEnv", func(st *State, g *Goroutine, fr *Frame, fn *ssa.Function, args []Value) (Value, status) {
		return Tuple{"", false}, stNext
	})
	N("(*sync/atomic.Pointer).Store", func(st *State, g *Goroutine, fr *Frame, fn *ssa.Function, args []Value) (Value, status) {
		p := args[0].(Pointer)
		if st.yieldPoint(g, p.obj) {
			return nil, stYield
		}
		st.atomicAccess(p)
		st.setSlot(p.obj, st.ptrSlotIdx(p), args[1])
		return nil, stNext
	})
	natives["(*sync/atomic.Pointer[T]).Store"] = natives["(*sync/atomic.Pointer).Store"]
	// ---- fmt / errors / strings ----
	N("fmt.Errorf", nativeErrorf)
	opaque := func(st *State, g *Goroutine, fr *Frame, fn *ssa.Function, args []Value) (Value, status) {
		return st.newOpaque(fn.Name()), stNext
	}
	N("fmt.Sprintf", opaque)
	N("fmt.Sprint", opaque)
	N("fmt.Sprintln", opaque)
	N("encoding/hex.EncodeToString", opaque)
	N("(net.IP).String", func(st *State, g *Goroutine, fr *Frame, fn *ssa.Function, args []Value) (Value, status) {
		sl := args[0].(Slice)
		n := 0
		if sl.obj != nil {
			n = int(st.concrete(sl.len))
		}
		bs := make([]byte, n)
		conc := true
		for i := 0; i < n; i++ {
			b, ok := sl.obj.slots[sl.off+i].(uint64)
			if !ok {
				conc = false
				break
			}
			bs[i] = byte(b)
		}
		if conc {
			return net.IP(bs).String(), stNext
		}
		// symbolic address: an injective function of the canonical (IPv4-mapped) 16-byte form
		if n != 4 && n != 16 {
			st.unsupported("net.IP.String on symbolic address of length %d", n)
		}
		canon := make([]Value, 16)
		if n == 4 {
			for i := 0; i < 10; i++ {
				canon[i] = uint64(0)
			}
			canon[10], canon[11] = uint64(0xff), uint64(0xff)
			for i := 0; i < 4; i++ {
				canon[12+i] = sl.obj.slots[sl.off+i]
			}
		} else {
			for i := 0; i < 16; i++ {
				canon[i] = sl.obj.slots[sl.off+i]
			}
		}
		o := st.newOpaque("ip.String")
		o.fam, o.inj = "ip:", canon
		return o, stNext
	})
	N("(*net.UDPAddr).String", opaque)
	N("(*net.TCPAddr).String", opaque)
	N("(net/netip.Addr).String", opaque)
	N("(net/netip.AddrPort).String", opaque)
	N("(github.com/google/gopacket.LayerType).String", opaque)
	N("(time.Duration).String", opaque)
	N("(time.Time).String", opaque)
	N("runtime/debug.Stack", func(st *State, g *Goroutine, fr *Frame, fn *ssa.Function, args []Value) (Value, status) {
		return Slice{nil_: true, len: uint64(0)}, stNext
	})
	for _, n := range []string{"fmt.Printf", "fmt.Println", "fmt.Print", "fmt.Fprintf", "fmt.Fprintln", "fmt.Fprint", "log.Printf", "log.Println", "log.Print",
		"runtime.SetFinalizer", "runtime.KeepAlive", "runtime.Gosched", "runtime.GC", "(*sync.Pool).Put"} {
		N(n, noop)
	}
	N("internal/abi.NoEscape", func(st *State, g *Goroutine, fr *Frame, fn *ssa.Function, args []Value) (Value, status) {
		return args[0], stNext
	})
	N("(*internal/godebug.Setting).Value", func(st *State, g *Goroutine, fr *Frame, fn *ssa.Function, args []Value) (Value, status) {
		return "", stNext
	})
	N("(*internal/godebug.Setting).IncNonDefault", noop)
	N("(*sync.Pool).Get", func(st *State, g *Goroutine, fr *Frame, fn *ssa.Function, args []Value) (Value, status) {
		// always miss: call New if set
		p := args[0].(Pointer)
		l := st.eng.layout(fn.Signature.Recv().Type().(*types.Pointer).Elem())
		newF := p.obj.slots[p.off+l.n-1]
		cl, _ := newF.(*Closure)
		if cl == nil {
			return Iface{}, stNext
		}
		st.pushFrame(g, cl.fn, nil, cl.env, fr.fi.idx[fr.block.Instrs[fr.ip].(ssa.Value)])
		return nil, stJumped
	})
	// ---- netip: branch-free comparison of zone-less addresses ----
	N("(net/netip.Addr).Compare", func(st *State, g *Goroutine, fr *Frame, fn *ssa.Function, args []Value) (Value, status) {
		a, b := args[0].(Agg), args[1].(Agg)
		za, ok1 := a[2].(Pointer)
		zb, ok2 := b[2].(Pointer)
		if !ok1 || !ok2 || za != zb {
			return nil, stFallback
		}
		p := st.tp
		h1, h2 := st.intTerm(a[0], 64), st.intTerm(b[0], 64)
		l1, l2 := st.intTerm(a[1], 64), st.intTerm(b[1], 64)
		lt := p.Or(p.Ult(h1, h2), p.And(p.Eq(h1, h2), p.Ult(l1, l2)))
		eq := p.And(p.Eq(h1, h2), p.Eq(l1, l2))
		return norm(p.Ite(lt, p.BVConst(64, ^uint64(0)), p.Ite(eq, p.BVConst(64, 0), p.BVConst(64, 1)))), stNext
	})
	// ---- unique ----
	N("unique.Make", func(st *State, g *Goroutine, fr *Frame, fn *ssa.Function, args []Value) (Value, status) {
		ks, ok := concreteKey(args[0])
		if !ok {
			st.unsupported("unique.Make of symbolic value")
		}
		ks = fn.String() + ":" + ks
		if p, ok := st.uniq[ks]; ok {
			return Agg{p}, stNext
		}
		t := fn.Signature.Params().At(0).Type()
		p := st.allocType(t, "unique")
		trail := st.trailOn
		st.trailOn = false
		st.store(p, t, args[0])
		st.trailOn = trail
		st.uniq[ks] = p
		return Agg{p}, stNext
	})
	// ---- bytealg / bytes ----
	N("internal/bytealg.Equal", nativeBytesEqual)
	N("bytes.Equal", nativeBytesEqual)
	N("internal/bytealg.IndexByte", func(st *State, g *Goroutine, fr *Frame, fn *ssa.Function, args []Value) (Value, status) {
		s := args[0].(Slice)
		n := int(st.concrete(s.len))
		for i := 0; i < n; i++ {
			if st.branchOn(st.equal(types.Typ[types.Uint8], s.obj.slots[s.off+i], args[1])) {
				return uint64(i), stNext
			}
		}
		return uint64(0xFFFFFFFFFFFFFFFF), stNext
	})
	N("internal/bytealg.IndexByteString", func(st *State, g *Goroutine, fr *Frame, fn *ssa.Function, args []Value) (Value, status) {
		bs := st.strBytes(st.plainString(args[0]))
		for i := range bs {
			if st.branchOn(st.equal(types.Typ[types.Uint8], bs[i], args[1])) {
				return uint64(i), stNext
			}
		}
		return uint64(0xFFFFFFFFFFFFFFFF), stNext
	})
	N("internal/bytealg.CountString", func(st *State, g *Goroutine, fr *Frame, fn *ssa.Function, args []Value) (Value, status) {
		s, ok := args[0].(string)
		if !ok {
			st.unsupported("CountString symbolic")
		}
		c := byte(st.concrete(args[1]))
		return uint64(strings.Count(s, string([]byte{c}))), stNext
	})
	N("internal/bytealg.IndexString", func(st *State, g *Goroutine, fr *Frame, fn *ssa.Function, args []Value) (Value, status) {
		a, ok1 := args[0].(string)
		b, ok2 := args[1].(string)
		if !ok1 || !ok2 {
			st.unsupported("IndexString symbolic")
		}
		return uint64(int64(strings.Index(a, b))), stNext
	})
	N("internal/stringslite.Index", func(st *State, g *Goroutine, fr *Frame, fn *ssa.Function, args []Value) (Value, status) {
		a, ok1 := args[0].(string)
		b, ok2 := args[1].(string)
		if !ok1 || !ok2 {
			st.unsupported("Index symbolic")
		}
		return uint64(int64(strings.Index(a, b))), stNext
	})
	N("strings.Index", natives["internal/stringslite.Index"])
	N("internal/bytealg.MakeNoZero", func(st *State, g *Goroutine, fr *Frame, fn *ssa.Function, args []Value) (Value, status) {
		n := int(st.concrete(args[0]))
		return st.makeSlice(types.Typ[types.Uint8], n, n), stNext
	})
	N("internal/bytealg.Compare", func(st *State, g *Goroutine, fr *Frame, fn *ssa.Function, args []Value) (Value, status) {
		a, b := args[0].(Slice), args[1].(Slice)
		na, nb := int(st.concrete(a.len)), int(st.concrete(b.len))
		for i := 0; i < na && i < nb; i++ {
			x, y := a.obj.slots[a.off+i], b.obj.slots[b.off+i]
			if st.branchOn(st.equal(types.Typ[types.Uint8], x, y)) {
				continue
			}
			if st.branchOn(st.ultV(st.to64w(x, 8), st.to64w(y, 8), 64)) {
				return uint64(0xFFFFFFFFFFFFFFFF), stNext
			}
			return uint64(1), stNext
		}
		switch {
		case na < nb:
			return uint64(0xFFFFFFFFFFFFFFFF), stNext
		case na > nb:
			return uint64(1), stNext
		}
		return uint64(0), stNext
	})
	N("strings.Builder.grow", nil)
	delete(natives, "strings.Builder.grow")
	// ---- math ----
	N("math.Float64bits", func(st *State, g *Goroutine, fr *Frame, fn *ssa.Function, args []Value) (Value, status) {
		f, ok := args[0].(float64)
		if !ok {
			st.unsupported("Float64bits of symbolic float")
		}
		return math.Float64bits(f), stNext
	})
	N("math.Float64frombits", func(st *State, g *Goroutine, fr *Frame, fn *ssa.Function, args []Value) (Value, status) {
		switch x := args[0].(type) {
		case uint64:
			return math.Float64frombits(x), stNext
		case *Term:
			return st.tp.FFromBits(x), stNext
		}
		return nil, stEnd
	})
	N("math.Abs", func(st *State, g *Goroutine, fr *Frame, fn *ssa.Function, args []Value) (Value, status) {
		switch x := args[0].(type) {
		case float64:
			return math.Abs(x), stNext
		case *Term:
			return st.tp.FAbs(x), stNext
		}
		return nil, stEnd
	})
	N("math.IsNaN", func(st *State, g *Goroutine, fr *Frame, fn *ssa.Function, args []Value) (Value, status) {
		switch x := args[0].(type) {
		case float64:
			return math.IsNaN(x), stNext
		case *Term:
			return norm(st.tp.FIsNaN(x)), stNext
		}
		return nil, stEnd
	})
	N("math.IsInf", func(st *State, g *Goroutine, fr *Frame, fn *ssa.Function, args []Value) (Value, status) {
		switch x := args[0].(type) {
		case float64:
			return math.IsInf(x, int(int64(st.concrete(args[1])))), stNext
		case *Term:
			return norm(st.tp.FIsInf(x)), stNext
		}
		return nil, stEnd
	})
	// math/rand
	rnd := func(kind string, w int) nativeFn {
		return func(st *State, g *Goroutine, fr *Frame, fn *ssa.Function, args []Value) (Value, status) {
			return st.freshVar("rand."+fn.Name(), kind, BV(w)), stNext
		}
	}
	N("math/rand.Uint32", rnd("u32", 32))
	N("math/rand/v2.Uint32", rnd("u32", 32))
	N("math/rand.Uint64", rnd("u64", 64))
	N("math/rand/v2.Uint64", rnd("u64", 64))
	N("github.com/google/uuid.New", func(st *State, g *Goroutine, fr *Frame, fn *ssa.Function, args []Value) (Value, status) {
		a := make(Agg, 16)
		d := Draw{Tag: "uuid", Kind: "bytes"}
		base := len(st.draws)
		for i := range a {
			t := st.tp.Var(fmt.Sprintf("uuid#%d.%d", base, i), BV(8))
			st.vars = append(st.vars, t)
			d.Sub = append(d.Sub, t)
			a[i] = t
		}
		st.draws = append(st.draws, d)
		return a, stNext
	})
	// math/bits intrinsics run from their Go bodies.
	_ = bits.Len
}


func (st *State) to64w(v Value, w int) Value {
	switch x := v.(type) {
	case uint64:
		return x
	case *Term:
		return norm(st.tp.Zext(x, 64-x.sort.W))
	}
	panic("to64w")
}

func (st *State) atomicAccess(p Pointer) {
	st.hbAcquire(p.obj, p.off)
	st.hbRelease(p.obj, p.off)
}

type yieldNow struct{}

func (st *State) ptrSlotIdx(p Pointer) int {
	// atomic.Pointer[T] struct { _ [0]*T; _ noCopy; v unsafe.Pointer }: the array of length 0 has 0 slots
	return p.off
}
func (st *State) ptrSlot(p Pointer) Value { return p.obj.slots[st.ptrSlotIdx(p)] }

func (st *State) timeType() types.Type {
	pkg := st.eng.prog.ImportedPackage("time")
	return pkg.Type("Time").Type()
}

func (st *State) sleep(g *Goroutine, d Value) (Value, status) {
	if g.phase == 0 {
		// non-positive sleeps return immediately
		if dv, ok := d.(uint64); ok && int64(dv) <= 0 {
			return nil, stNext
		}
		if len(st.gs) <= 1 {
			if st.branchOn(st.timeLT(uint64(0), d)) {
				st.now = st.addV(st.now, d)
			}
			return nil, stNext
		}
		g.wake = st.addV(st.now, d)
		g.phase = 1
		g.waitKind = waitSleep
		return nil, st.block(g, "sleep")
	}
	g.phase = 0
	return nil, stNext
}

func nativeLock(st *State, g *Goroutine, fr *Frame, fn *ssa.Function, args []Value) (Value, status) {
	p := args[0].(Pointer)
	if p.obj == nil {
		st.rtPanic("nil mutex")
	}
	if st.yieldPoint(g, p.obj) {
		return nil, stYield
	}
	if p.obj.slots[p.off].(uint64) != 0 {
		g.waitOn, g.waitKind = p, waitMutex
		return nil, st.block(g, "mutex lock")
	}
	st.setSlot(p.obj, p.off, uint64(1))
	st.hbAcquire(p.obj, p.off)
	return nil, stNext
}

func nativeUnlock(st *State, g *Goroutine, fr *Frame, fn *ssa.Function, args []Value) (Value, status) {
	p := args[0].(Pointer)
	if st.yieldPoint(g, p.obj) {
		return nil, stYield
	}
	if p.obj.slots[p.off].(uint64) == 0 {
		st.rtPanic("sync: unlock of unlocked mutex")
	}
	st.hbRelease(p.obj, p.off)
	st.setSlot(p.obj, p.off, uint64(0))
	return nil, stNext
}

func nativeBytesEqual(st *State, g *Goroutine, fr *Frame, fn *ssa.Function, args []Value) (Value, status) {
	a, b := args[0].(Slice), args[1].(Slice)
	la, lb := a.len, b.len
	if !st.branchOn(st.equal(types.Typ[types.Int], la, lb)) {
		return false, stNext
	}
	n := int(st.concrete(la))
	var res Value = true
	for i := 0; i < n; i++ {
		res = st.andV(res, st.equal(types.Typ[types.Uint8], a.obj.slots[a.off+i], b.obj.slots[b.off+i]))
	}
	return res, stNext
}

// fmt.Errorf: real wrapping structure, opaque message.
func nativeErrorf(st *State, g *Goroutine, fr *Frame, fn *ssa.Function, args []Value) (Value, status) {
	format, ok := args[0].(string)
	if !ok {
		st.unsupported("fmt.Errorf with non-constant format")
	}
	va := args[1].(Slice)
	n := 0
	if va.obj != nil {
		n = int(st.concrete(va.len))
	}
	// find %w verbs and their argument index
	var wrapped []Value
	argi := 0
	for i := 0; i < len(format); i++ {
		if format[i] != '%' {
			continue
		}
		i++
		for i < len(format) && strings.IndexByte("+-# 0123456789.[]*", format[i]) >= 0 {
			i++
		}
		if i >= len(format) {
			break
		}
		if format[i] == '%' {
			continue
		}
		if format[i] == 'w' && argi < n {
			a := va.obj.slots[va.off+argi*va.esz]
			wrapped = append(wrapped, a)
		}
		argi++
	}
	msg := st.newOpaque("errorf:" + format)
	errT := types.Universe.Lookup("error").Type()
	switch len(wrapped) {
	case 0:
		t := st.eng.prog.ImportedPackage("errors").Type("errorString").Type()
		p := st.allocType(t, "errorString")
		p.obj.slots[0] = msg
		return Iface{typ: types.NewPointer(t), val: p}, stNext
	case 1:
		t := st.eng.prog.ImportedPackage("fmt").Type("wrapError").Type()
		p := st.allocType(t, "wrapError")
		p.obj.slots[0] = msg
		iv := wrapped[0].(Iface)
		if iv.typ != nil && !types.Implements(iv.typ, errT.Underlying().(*types.Interface)) {
			iv = Iface{}
		}
		p.obj.slots[1] = iv
		return Iface{typ: types.NewPointer(t), val: p}, stNext
	default:
		t := st.eng.prog.ImportedPackage("fmt").Type("wrapErrors").Type()
		p := st.allocType(t, "wrapErrors")
		p.obj.slots[0] = msg
		s := st.makeSlice(errT, len(wrapped), len(wrapped))
		for i, w := range wrapped {
			s.obj.slots[i] = w
		}
		p.obj.slots[1] = s
		return Iface{typ: types.NewPointer(t), val: p}, stNext
	}
}

// AsAssign(err error, target any) bool: if err's dynamic type is assignable to *target's element type, store and return true.
func nativeAsAssign(st *State, g *Goroutine, fr *Frame, fn *ssa.Function, args []Value) (Value, status) {
	err := args[0].(Iface)
	tgt := args[1].(Iface)
	if tgt.typ == nil {
		st.rtPanic("errors: target cannot be nil")
	}
	pt, ok := tgt.typ.Underlying().(*types.Pointer)
	if !ok {
		st.rtPanic("errors: target must be a non-nil pointer")
	}
	et := pt.Elem()
	if err.typ == nil {
		return false, stNext
	}
	if it, isI := et.Underlying().(*types.Interface); isI {
		if types.Implements(err.typ, it) {
			st.store(tgt.val.(Pointer), et, err)
			return true, stNext
		}
		return false, stNext
	}
	if types.Identical(err.typ, et) {
		st.store(tgt.val.(Pointer), et, err.val)
		return true, stNext
	}
	return false, stNext
}

// ---------- assume / assert / reach ----------

func (st *State) assume(c Value) status {
	switch x := c.(type) {
	case bool:
		if !x {
			st.endReason = endAssumeFalse
			return stEnd
		}
		return stNext
	case *Term:
		if v, ok := st.known[x.id]; ok {
			if v == 0 {
				st.endReason = endAssumeFalse
				return stEnd
			}
			return stNext
		}
		feas := false
		if d, ok := st.quickDecide(x); ok {
			feas = d
		} else if st.evalModel(x) == 1 {
			feas = true
		} else {
			for k := range st.altModels {
				delete(st.altModels, k)
			}
			feas = st.query(x)
			if feas {
				if m, ok := st.altModels[x.id]; ok {
					st.model = m
				} else {
					st.model = nil
				}
			}
		}
		if !feas {
			st.endReason = endAssumeFalse
			return stEnd
		}
		st.addPC(x, false)
		return stNext
	}
	panic("assume")
}

func (j *Job) assertStat(label string) *AssertStat {
	a := j.asserts[label]
	if a == nil {
		a = &AssertStat{}
		j.asserts[label] = a
	}
	return a
}

func (j *Job) labelActive(label string) bool {
	if len(j.labels) == 0 {
		return true
	}
	for _, p := range j.labels {
		if strings.HasPrefix(label, p) {
			return true
		}
	}
	return false
}

func (st *State) assert(c Value, label, kf string, inRegion Value) status {
	if !st.job.labelActive(label) {
		// obligations of other properties are not evaluated by this check - and not assumed either: assuming them
		// pruned exactly the paths on which a change breaks two properties at once (the other property's
		// obligation came first in the harness and hid this one's); the path continues whatever their value
		return stNext
	}
	as := st.job.assertStat(label)
	switch x := c.(type) {
	case bool:
		if x {
			as.Trivial++
			return stNext
		}
		// concrete failure on this path
		if kf != "" && st.job.kfOpen[kf] {
			if st.branchOn(inRegion) {
				st.job.knownHits[kf]++
				as.Failed++
				st.endReason, st.endMsg = endAssertStop, "known finding "+kf
				return stEnd
			}
		}
		as.Failed++
		st.recordViolation(label, "assert", st.where())
		st.endReason, st.endMsg = endAssertStop, label
		return stEnd
	case *Term:
		neg := st.tp.Not(x)
		if kf != "" && st.job.kfOpen[kf] {
			reg := st.boolTerm(inRegion)
			// outside the known region the assertion must hold
			r, m := st.solve([]*Term{st.tp.And(neg, st.tp.Not(reg))}, true)
			switch r {
			case Sat:
				as.Failed++
				saved := st.model
				st.model = m
				st.recordViolation(label, "assert", st.where())
				st.model = saved
			case Unknown:
				as.Unknown++
				st.job.inconclusive = append(st.job.inconclusive, "unknown on assertion "+label)
			}
			r2, _ := st.solve([]*Term{st.tp.And(neg, reg)}, false)
			if r2 == Sat {
				st.job.knownHits[kf]++
			} else if r == Unsat {
				as.Proved++
			}
			return st.assume(x)
		}
		r, m := st.solve([]*Term{neg}, true)
		if r == Unknown {
			// second opinion with a fresh process of another solver and a longer limit before giving up
			r, m = st.solveFallback([]*Term{neg})
		}
		switch r {
		case Unsat:
			as.Proved++
			st.addPC(x, false)
			return stNext
		case Sat:
			as.Failed++
			saved := st.model
			st.model = m
			st.recordViolation(label, "assert", st.where())
			st.model = saved
			return st.assume(x)
		default:
			as.Unknown++
			if len(st.job.inconclusive) < 20 {
				st.job.inconclusive = append(st.job.inconclusive, "solver unknown on assertion "+label)
			}
			return st.assume(x)
		}
	}
	panic("assert")
}

func (st *State) reach(label string) {
	if _, ok := st.job.reach[label]; ok {
		st.job.reachCount[label]++
		return
	}
	m := st.model
	if m == nil {
		_, m = st.solve(nil, true)
		if m == nil {
			return
		}
		st.model = m
	}
	st.job.reach[label] = &DrawSet{Draws: st.currentDraws(m)}
	st.job.reachCount[label]++
}
