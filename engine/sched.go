package main

// Model goroutines, channels, select, virtual time and the scheduler.

import (
	"fmt"
	"go/token"
	"go/types"

	"golang.org/x/tools/go/ssa"
)

type Sched struct {
	preemptions int
	nextGID     int
	switches    int
	sleep       map[int]bool // sleep set (goroutine ids), partial-order reduction
}

func (s *Sched) clone() *Sched {
	c := *s
	if s.sleep != nil {
		c.sleep = make(map[int]bool, len(s.sleep))
		for k, v := range s.sleep {
			c.sleep[k] = v
		}
	}
	return &c
}

// chan state lives in an Obj so that the trail undoes it:
// slot0: buffer (Agg of queued values), slot1: closed(bool), slot2: taken counter (uint64),
// slot3: timer kind (0 none, 1 deliver value at readyAt, 2 close at readyAt), slot4: readyAt (time ns), slot5: fired(bool)
const (
	chBuf = iota
	chClosed
	chTaken
	chTimerKind
	chReadyAt
	chFired
	chSlots
)

func (st *State) newChan(capacity int, et types.Type) *ChanObj {
	o := st.newObj(chSlots, []Value{Agg{}, false, uint64(0), uint64(0), uint64(0), false}, "chan")
	o.shared = true
	o.syncObj = true
	return &ChanObj{id: o.id, cap: capacity, etype: et, st: o}
}

func (c *ChanObj) buf() Agg     { return c.st.slots[chBuf].(Agg) }
func (c *ChanObj) isClosed() bool { return c.st.slots[chClosed].(bool) }

// chanRefresh fires timer channels whose time has come.
func (st *State) chanRefresh(c *ChanObj) {
	kind := c.st.slots[chTimerKind].(uint64)
	if kind == 0 || c.st.slots[chFired].(bool) {
		return
	}
	if st.branchOn(st.timeGE(st.now, c.st.slots[chReadyAt])) {
		st.setSlot(c.st, chFired, true)
		if kind == 1 {
			st.setSlot(c.st, chBuf, append(Agg{}, st.timeValue(c.st.slots[chReadyAt])))
		} else if !c.isClosed() {
			st.setSlot(c.st, chClosed, true)
		}
	}
}

func (st *State) timeGE(a, b Value) Value {
	x, xc := a.(uint64)
	y, yc := b.(uint64)
	if xc && yc {
		return int64(x) >= int64(y)
	}
	return norm(st.tp.Sle(st.intTerm(b, 64), st.intTerm(a, 64)))
}

func (st *State) timeValue(ns Value) Value {
	return Agg{uint64(0), ns, Pointer{}}
}

// canRecv reports whether a receive can complete now (value available or closed).
func (st *State) canRecv(c *ChanObj) bool {
	st.chanRefresh(c)
	return len(c.buf()) > 0 || c.isClosed()
}

func (st *State) doRecv(c *ChanObj) (Value, bool) {
	b := c.buf()
	if len(b) > 0 {
		v := b[0]
		nb := make(Agg, len(b)-1)
		copy(nb, b[1:])
		st.setSlot(c.st, chBuf, nb)
		st.setSlot(c.st, chTaken, c.st.slots[chTaken].(uint64)+1)
		st.hbAcquire(c.st)
		return v, true
	}
	st.hbAcquire(c.st)
	return st.zero(c.etype), false
}

func (st *State) canSend(c *ChanObj) bool {
	if c.isClosed() {
		return true // will panic
	}
	limit := c.cap
	if limit == 0 {
		limit = 1
	}
	return len(c.buf()) < limit
}

func (st *State) block(g *Goroutine, why string) status {
	g.status = gBlocked
	g.name = why
	g.pendObj = nil
	g.pendWrite = true
	switch w := g.waitOn.(type) {
	case *ChanObj:
		if w != nil {
			g.pendObj = w.st
		}
	case Pointer:
		g.pendObj = w.obj
	}
	return stYield
}

func (st *State) recvOp(g *Goroutine, fr *Frame, x *ssa.UnOp) status {
	cv := st.get(fr, x.X).(*ChanObj)
	if cv == nil {
		return st.block(g, "recv on nil chan")
	}
	if st.yieldPoint(g, cv.st) {
		return stYield
	}
	if !st.canRecv(cv) {
		g.waitOn = cv
		g.waitKind = waitRecv
		return st.block(g, "chan recv")
	}
	g.phase = 0
	v, ok := st.doRecv(cv)
	if x.CommaOk {
		st.set(fr, x, Tuple{v, ok})
	} else {
		st.set(fr, x, v)
	}
	return stNext
}

func (st *State) doSend(g *Goroutine, fr *Frame, x *ssa.Send) status {
	cv := st.get(fr, x.Chan).(*ChanObj)
	if cv == nil {
		return st.block(g, "send on nil chan")
	}
	if g.phase == 0 {
		if st.yieldPoint(g, cv.st) {
			return stYield
		}
		if cv.isClosed() {
			st.rtPanic("send on closed channel")
		}
		if !st.canSend(cv) {
			g.waitOn, g.waitKind = cv, waitSend
			return st.block(g, "chan send")
		}
		st.hbRelease(cv.st)
		st.setSlot(cv.st, chBuf, append(append(Agg{}, cv.buf()...), st.get(fr, x.X)))
		if cv.cap > 0 {
			return stNext
		}
		// unbuffered: wait until taken
		g.phase = 1
		g.phaseVal = cv.st.slots[chTaken].(uint64)
		g.waitOn, g.waitKind = cv, waitTaken
		return st.block(g, "chan send (rendezvous)")
	}
	// phase 1: value consumed?
	if cv.st.slots[chTaken].(uint64) > g.phaseVal {
		g.phase = 0
		return stNext
	}
	g.waitOn, g.waitKind = cv, waitTaken
	return st.block(g, "chan send (rendezvous)")
}

func (st *State) closeChan(c *ChanObj) {
	if c == nil {
		st.rtPanic("close of nil channel")
	}
	st.chanRefresh(c)
	if c.isClosed() {
		st.rtPanic("close of closed channel")
	}
	st.hbRelease(c.st)
	st.setSlot(c.st, chClosed, true)
}

func (st *State) doSelect(g *Goroutine, fr *Frame, x *ssa.Select) status {
	// ready cases
	type rc struct{ i int }
	var ready []int
	var chans []*ChanObj
	for i, s := range x.States {
		cv := st.get(fr, s.Chan).(*ChanObj)
		chans = append(chans, cv)
		if cv == nil {
			continue
		}
		if s.Dir == types.RecvOnly {
			if st.canRecv(cv) {
				ready = append(ready, i)
			}
		} else {
			if st.canSend(cv) {
				ready = append(ready, i)
			}
		}
	}
	if len(x.States) > 0 && g.phase == 0 {
		if st.yieldPoint(g, nil) {
			return stYield
		}
	}
	g.phase = 0
	nrecv := 0
	for _, s := range x.States {
		if s.Dir == types.RecvOnly {
			nrecv++
		}
	}
	mk := func(idx int, recvOK bool, vals map[int]Value) Value {
		t := make(Tuple, 2+nrecv)
		t[0] = uint64(idx)
		t[1] = recvOK
		k := 2
		for i, s := range x.States {
			if s.Dir == types.RecvOnly {
				if v, ok := vals[i]; ok {
					t[k] = v
				} else {
					t[k] = st.zero(chans0type(s))
				}
				k++
			}
		}
		return t
	}
	if len(ready) == 0 {
		if !x.Blocking {
			st.set(fr, x, mk(int(^uint(0)>>1)*0-1, false, nil))
			// index -1 for default
			t := st.get(fr, x).(Tuple)
			t[0] = uint64(0xFFFFFFFFFFFFFFFF)
			return stNext
		}
		g.waitOn, g.waitKind = chans, waitSelect
		g.selDirs = nil
		for _, s := range x.States {
			g.selDirs = append(g.selDirs, s.Dir == types.RecvOnly)
		}
		return st.block(g, "select")
	}
	choice := ready[0]
	if len(ready) > 1 {
		// fork over ready cases
		key := fmt.Sprintf("sel:%p:%d", x, g.id)
		if k, ok := st.schedChoice[key]; ok {
			choice = k
			delete(st.schedChoice, key)
		} else {
			alts := make([]Alt, len(ready))
			for j, r := range ready {
				r := r
				alts[j] = Alt{cond: st.tp.True, apply: func() { st.schedChoice[key] = r }}
			}
			panic(forkRequest{alts})
		}
	}
	s := x.States[choice]
	cv := chans[choice]
	if s.Dir == types.RecvOnly {
		v, ok := st.doRecv(cv)
		st.set(fr, x, mk(choice, ok, map[int]Value{choice: v}))
		return stNext
	}
	if cv.isClosed() {
		st.rtPanic("send on closed channel")
	}
	st.hbRelease(cv.st)
	st.setSlot(cv.st, chBuf, append(append(Agg{}, cv.buf()...), st.get(fr, s.Send)))
	st.set(fr, x, mk(choice, false, nil))
	return stNext
}

func chans0type(s *ssa.SelectState) types.Type {
	return s.Chan.Type().Underlying().(*types.Chan).Elem()
}

// ---------- goroutines ----------

const (
	waitNone = iota
	waitRecv
	waitSend
	waitTaken
	waitSelect
	waitMutex
	waitWG
	waitSleep
	waitRW
	waitCond
)

func (st *State) doGo(g *Goroutine, fr *Frame, x *ssa.Go) status {
	fv, args := st.resolveCall(fr, &x.Call)
	cl := fv.(*Closure)
	if cl == nil {
		st.rtPanic("go of nil func")
	}
	ng := &Goroutine{id: st.sched.nextGID, name: "go"}
	st.sched.nextGID++
	st.hbFork(g, ng)
	st.gs = append(st.gs, ng)
	if cl.fn == nil {
		st.unsupported("go statement on native function %s", cl.native)
	}
	if _, _, handled := st.tryNativeProbe(cl.fn); handled {
		st.unsupported("go statement on modelled function %s", cl.fn)
	}
	st.ensureInit(cl.fn.Pkg)
	st.pushFrame(ng, cl.fn, args, cl.env, -1)
	return stNext
}

// yieldPoint gives other goroutines a chance to run before a visible operation.
// It returns true if the current goroutine should yield now (the instruction will be retried).
func (st *State) yieldPoint(g *Goroutine, obj *Obj, write ...bool) bool {
	if len(st.gs) <= 1 || g.id < 0 {
		return false
	}
	if g.yielded {
		g.yielded = false
		return false
	}
	// only worth yielding if another goroutine could run
	others := false
	for _, o := range st.gs {
		if o != g && o.status != gDone {
			others = true
			break
		}
	}
	if !others {
		return false
	}
	g.yielded = true
	g.pendObj = obj
	g.pendWrite = len(write) == 0 || write[0]
	return true
}

// independent: the next transitions of a and b start with operations on different synchronisation objects.
// (Every synchronisation operation is a scheduling point, so a transition touches exactly one such object; plain
// memory shared between goroutines is protected by those objects - data-race freedom is the assumption, see C14.)
func independent(a, b *Goroutine) bool {
	if a.pendObj == nil || b.pendObj == nil {
		return false
	}
	return a.pendObj != b.pendObj || (!a.pendWrite && !b.pendWrite)
}

func (st *State) canProceed(g *Goroutine) bool {
	switch g.waitKind {
	case waitNone:
		return true
	case waitRecv:
		return st.canRecv(g.waitOn.(*ChanObj))
	case waitSend:
		c := g.waitOn.(*ChanObj)
		return st.canSend(c)
	case waitTaken:
		c := g.waitOn.(*ChanObj)
		return c.st.slots[chTaken].(uint64) > g.phaseVal
	case waitSelect:
		for i, c := range g.waitOn.([]*ChanObj) {
			if c == nil {
				continue
			}
			if g.selDirs[i] {
				if st.canRecv(c) {
					return true
				}
			} else if st.canSend(c) {
				return true
			}
		}
		return false
	case waitMutex:
		o := g.waitOn.(Pointer)
		return o.obj.slots[o.off].(uint64) == 0
	case waitRW:
		o := g.waitOn.(Pointer)
		if g.phaseVal == 1 { // wants read lock: no writer
			return o.obj.slots[o.off].(uint64) == 0
		}
		return o.obj.slots[o.off].(uint64) == 0 && o.obj.slots[o.off+4].(uint64) == 0
	case waitWG:
		o := g.waitOn.(Pointer)
		return o.obj.slots[o.off].(uint64) == 0
	case waitSleep:
		return st.branchOn(st.timeGE(st.now, g.wake))
	}
	return false
}

// wakeTime returns the virtual time at which g could become runnable without another goroutine acting (nil if none).
func (st *State) wakeTime(g *Goroutine) Value {
	switch g.waitKind {
	case waitSleep:
		return g.wake
	case waitRecv:
		c := g.waitOn.(*ChanObj)
		if c.st.slots[chTimerKind].(uint64) != 0 && !c.st.slots[chFired].(bool) {
			return c.st.slots[chReadyAt]
		}
	case waitSelect:
		var best Value
		for i, c := range g.waitOn.([]*ChanObj) {
			if c == nil || !g.selDirs[i] {
				continue
			}
			if c.st.slots[chTimerKind].(uint64) != 0 && !c.st.slots[chFired].(bool) {
				t := c.st.slots[chReadyAt]
				if best == nil || st.branchOn(st.timeLT(t, best)) {
					best = t
				}
			}
		}
		return best
	}
	return nil
}

func (st *State) timeLT(a, b Value) Value {
	x, xc := a.(uint64)
	y, yc := b.(uint64)
	if xc && yc {
		return int64(x) < int64(y)
	}
	return norm(st.tp.Slt(st.intTerm(a, 64), st.intTerm(b, 64)))
}

// scheduleAndRun runs goroutines until the path forks, ends, or the main goroutine returns.
func (st *State) scheduleAndRun() event {
	for {
		if k, ok := st.schedChoice["sched"]; ok {
			// a scheduling fork was just taken: switch to the chosen goroutine before running anything
			delete(st.schedChoice, "sched")
			st.cur = k
		}
		g := st.curG()
		if g.status == gBlocked {
			ok := false
			s := st.protect(func() status {
				ok = st.canProceed(g)
				return stNext
			})
			if s == stRetry || st.pendingFork != nil {
				return evFork
			}
			if s == stEnd {
				return evEnd
			}
			if ok {
				g.status = gRunnable
				g.waitKind = waitNone
			}
		}
		if g.status == gRunnable {
			ev := st.runUntilEvent()
			switch ev {
			case evFork, evEnd:
				return ev
			case evDone:
				st.hbExit(g)
				if st.cur == 0 {
					return evDone
				}
			case evYield:
			}
		}
		// choose next goroutine
		ev, done := st.pickNext()
		if done {
			return ev
		}
	}
}

// pickNext selects the next goroutine to run. Returns (event, true) if the caller must return the event.
func (st *State) pickNext() (event, bool) {
	var runnable []int
	var result event
	var failed bool
	s := st.protect(func() status {
		for i, g := range st.gs {
			switch g.status {
			case gRunnable:
				runnable = append(runnable, i)
			case gBlocked:
				if st.canProceed(g) {
					runnable = append(runnable, i)
				}
			}
		}
		return stNext
	})
	if s == stRetry || st.pendingFork != nil {
		return evFork, true
	}
	if s == stEnd {
		return evEnd, true
	}
	_ = result
	_ = failed
	if len(runnable) == 0 {
		// advance virtual time to the earliest wake-up
		var best Value
		s := st.protect(func() status {
			for _, g := range st.gs {
				if g.status != gBlocked {
					continue
				}
				w := st.wakeTime(g)
				if w == nil {
					continue
				}
				if best == nil || st.branchOn(st.timeLT(w, best)) {
					best = w
				}
			}
			return stNext
		})
		if s == stRetry || st.pendingFork != nil {
			return evFork, true
		}
		if s == stEnd {
			return evEnd, true
		}
		if best == nil {
			st.endReason, st.endMsg = endDeadlock, st.describeBlocked()
			return evEnd, true
		}
		s = st.protect(func() status {
			if st.branchOn(st.timeLT(st.now, best)) {
				st.now = best
			}
			return stNext
		})
		if s == stRetry || st.pendingFork != nil {
			return evFork, true
		}
		return evNone, false
	}
	// partial-order reduction with sleep sets
	var cands []int
	for _, r := range runnable {
		if !st.sched.sleep[st.gs[r].id] {
			cands = append(cands, r)
		}
	}
	if len(cands) == 0 {
		// every enabled transition is asleep: this interleaving is equivalent to one already explored
		st.endReason, st.endMsg = endAssumeFalse, "sleep-set pruned"
		st.job.pruned++
		return evEnd, true
	}
	curRunnable := false
	for _, r := range runnable {
		if r == st.cur {
			curRunnable = true
		}
	}
	mkSleep := func(chosen int, earlier []int) map[int]bool {
		ns := map[int]bool{}
		cg := st.gs[chosen]
		for id := range st.sched.sleep {
			for _, g := range st.gs {
				if g.id == id && g.status != gDone && independent(g, cg) {
					ns[id] = true
				}
			}
		}
		for _, e := range earlier {
			if independent(st.gs[e], cg) {
				ns[st.gs[e].id] = true
			}
		}
		return ns
	}
	var alts []Alt
	for i, r := range cands {
		r := r
		earlier := append([]int(nil), cands[:i]...)
		preempt := curRunnable && r != st.cur && st.gs[st.cur].status != gDone
		if preempt && st.job.maxPreempt >= 0 && st.sched.preemptions >= st.job.maxPreempt {
			continue
		}
		alts = append(alts, Alt{cond: st.tp.True, apply: func() {
			st.schedChoice["sched"] = r
			st.sched.sleep = mkSleep(r, earlier)
			if preempt {
				st.sched.preemptions++
			}
		}})
	}
	if len(alts) == 0 {
		st.endReason, st.endMsg = endAssumeFalse, "preemption bound"
		return evEnd, true
	}
	if len(alts) == 1 {
		alts[0].apply()
		st.cur = st.schedChoice["sched"]
		delete(st.schedChoice, "sched")
		return evNone, false
	}
	st.pendingFork = alts
	return evFork, true
}

const evNone event = -1

func (st *State) describeBlocked() string {
	s := "all goroutines blocked:"
	for _, g := range st.gs {
		if g.status == gBlocked {
			s += fmt.Sprintf(" g%d(%s)", g.id, g.name)
		}
	}
	return s
}

var _ = token.ADD
