package main

import (
	"fmt"
	"sort"
	"time"
)

// ---------- path condition / feasibility ----------

func (st *State) boundsOf(t *Term) (uint64, uint64) {
	if b, ok := st.rb[t.id]; ok {
		return b[0], b[1]
	}
	if k, ok := st.known[t.id]; ok {
		return k, k
	}
	return t.lo, t.hi
}

func (st *State) setBounds(t *Term, lo, hi uint64) {
	if t.sort.K != KBV || t.IsConst() {
		return
	}
	olo, ohi := st.boundsOf(t)
	if lo < olo {
		lo = olo
	}
	if hi > ohi {
		hi = ohi
	}
	if lo == olo && hi == ohi || lo > hi {
		return
	}
	old, had := st.rb[t.id]
	st.rb[t.id] = [2]uint64{lo, hi}
	id := t.id
	st.trailFunc(func() {
		if had {
			st.rb[id] = old
		} else {
			delete(st.rb, id)
		}
	})
	// propagate through zext / extract-free wrappers
	if t.op == OpZext {
		st.setBounds(t.args[0], lo, hi)
	}
}

func (st *State) refine(c *Term, pos bool) {
	switch c.op {
	case OpNot:
		st.refine(c.args[0], !pos)
	case OpAnd:
		if pos {
			st.refine(c.args[0], true)
			st.refine(c.args[1], true)
		}
	case OpOr:
		if !pos {
			st.refine(c.args[0], false)
			st.refine(c.args[1], false)
		}
	case OpBVUlt, OpBVUle:
		a, b := c.args[0], c.args[1]
		strict := c.op == OpBVUlt
		if !pos {
			// not(a<b) == b<=a ; not(a<=b) == b<a
			a, b = b, a
			strict = !strict
		}
		m := mask(a.sort.W)
		// a < b or a <= b
		alo, _ := st.boundsOf(a)
		_, bhi := st.boundsOf(b)
		if strict {
			if bhi > 0 {
				st.setBounds(a, 0, bhi-1)
			}
			if alo < m {
				st.setBounds(b, alo+1, m)
			}
		} else {
			st.setBounds(a, 0, bhi)
			st.setBounds(b, alo, m)
		}
	case OpEq:
		if pos && c.args[0].sort.K == KBV {
			a, b := c.args[0], c.args[1]
			alo, ahi := st.boundsOf(a)
			blo, bhi := st.boundsOf(b)
			st.setBounds(a, blo, bhi)
			st.setBounds(b, alo, ahi)
		}
	}
}

// quickDecide uses refined bounds to decide comparisons without the solver.
func (st *State) quickDecide(c *Term) (val, ok bool) {
	switch c.op {
	case OpNot:
		v, ok := st.quickDecide(c.args[0])
		return !v, ok
	case OpBVUlt, OpBVUle:
		alo, ahi := st.boundsOf(c.args[0])
		blo, bhi := st.boundsOf(c.args[1])
		if c.op == OpBVUlt {
			if ahi < blo {
				return true, true
			}
			if alo >= bhi {
				return false, true
			}
		} else {
			if ahi <= blo {
				return true, true
			}
			if alo > bhi {
				return false, true
			}
		}
	case OpEq:
		if c.args[0].sort.K == KBV {
			alo, ahi := st.boundsOf(c.args[0])
			blo, bhi := st.boundsOf(c.args[1])
			if ahi < blo || bhi < alo {
				return false, true
			}
			if alo == ahi && blo == bhi && alo == blo {
				return true, true
			}
		}
	}
	return false, false
}

func (st *State) addPC(c *Term, fromFork bool) {
	if c.IsConst() {
		return
	}
	st.pc = append(st.pc, c)
	st.solver.Assert(c)
	st.refine(c, true)
}

func (st *State) evalModel(c *Term) int {
	if st.model == nil {
		return -1
	}
	return int(st.tp.Eval(c, st.model))
}

// query asks whether pc ∧ c is satisfiable. Unknown counts as feasible.
func (st *State) query(c *Term) bool {
	r, m := st.solver.CheckWith(c, st.vars)
	st.job.noteQuery(r)
	if st.solver.dead {
		panic(fmt.Sprintf("solver died: %s", st.solver.lastErr))
	}
	switch r {
	case Unsat:
		return false
	case Sat:
		st.altModels[c.id] = m
		return true
	}
	st.job.unknownBranches++
	return true
}

func (st *State) feasible2(c *Term) (ft, ff bool) {
	if d, ok := st.quickDecide(c); ok {
		st.job.quick++
		return d, !d
	}
	nc := st.tp.Not(c)
	switch st.evalModel(c) {
	case 1:
		st.altModels[c.id] = st.model
		return true, st.query(nc)
	case 0:
		st.altModels[nc.id] = st.model
		return st.query(c), true
	}
	return st.query(c), st.query(nc)
}

// enumerate lists feasible values of t under the current path condition.
func (st *State) enumerate(t *Term, max int) ([]uint64, bool) {
	var vals []uint64
	st.solver.Push()
	defer st.solver.Pop()
	for len(vals) <= max {
		r := st.solver.Check()
		st.job.noteQuery(r)
		if r == Unsat {
			sort.Slice(vals, func(i, j int) bool { return vals[i] < vals[j] })
			return vals, true
		}
		if r == Unknown {
			return vals, false
		}
		m := st.solver.GetModel(st.vars)
		v := st.tp.Eval(t, m)
		vals = append(vals, v)
		st.solver.Assert(st.tp.Not(st.tp.Eq(t, st.tp.BVConst(t.sort.W, v))))
	}
	return vals, false
}

func (st *State) varsOf(t *Term) []*Term {
	var out []*Term
	ids := map[int]bool{}
	for _, id := range t.syms {
		ids[id] = true
	}
	for _, v := range st.vars {
		if ids[v.id] {
			out = append(out, v)
		}
	}
	return out
}

// ---------- snapshots ----------

type snapshot struct {
	gs       []*Goroutine
	cur      int
	trail    int
	pcLen    int
	drawsLen int
	varsLen  int
	model    Model
	now      Value
	steps    int64
	sched    *Sched
	nextG    int
}

func cloneFrame(f *Frame) *Frame {
	nf := *f
	nf.regs = make([]Value, len(f.regs))
	copy(nf.regs, f.regs)
	if len(f.defers) > 0 {
		nf.defers = make([]deferred, len(f.defers))
		copy(nf.defers, f.defers)
	}
	if f.visits != nil {
		nf.visits = make(map[int]int, len(f.visits))
		for k, v := range f.visits {
			nf.visits[k] = v
		}
	}
	return &nf
}

func cloneG(g *Goroutine) *Goroutine {
	ng := *g
	ng.frames = make([]*Frame, len(g.frames))
	for i, f := range g.frames {
		ng.frames[i] = cloneFrame(f)
	}
	if g.panic != nil {
		p := *g.panic
		ng.panic = &p
	}
	if g.vc != nil {
		ng.vc = append([]int(nil), g.vc...)
	}
	return &ng
}

func (st *State) snapshot() *snapshot {
	s := &snapshot{cur: st.cur, trail: len(st.trail), pcLen: len(st.pc), drawsLen: len(st.draws), varsLen: len(st.vars),
		model: st.model, now: st.now, steps: st.steps}
	s.gs = make([]*Goroutine, len(st.gs))
	for i, g := range st.gs {
		s.gs[i] = cloneG(g)
	}
	if st.sched != nil {
		s.sched = st.sched.clone()
	}
	return s
}

func (st *State) restore(s *snapshot) {
	st.undoTo(s.trail)
	st.pc = st.pc[:s.pcLen]
	st.draws = st.draws[:s.drawsLen]
	st.vars = st.vars[:s.varsLen]
	st.model = s.model
	st.now = s.now
	st.cur = s.cur
	st.gs = make([]*Goroutine, len(s.gs))
	for i, g := range s.gs {
		st.gs[i] = cloneG(g)
	}
	if s.sched != nil {
		st.sched = s.sched.clone()
	}
	st.pendingFork = nil
	st.endReason, st.endMsg = endNone, ""
}

// ---------- DFS ----------

func (st *State) explore() {
	if st.job.stop() {
		return
	}
	for {
		ev := st.scheduleAndRun()
		switch ev {
		case evDone:
			st.finishPath(endReturn, "")
			return
		case evEnd:
			st.finishPath(st.endReason, st.endMsg)
			return
		case evFork:
			alts := st.pendingFork
			st.pendingFork = nil
			st.job.forks++
			if st.job.forkSites != nil {
				st.job.forkSites[fmt.Sprintf("%d-way @ %s", len(alts), st.whereShort())]++
			}
			snap := st.snapshot()
			for i, alt := range alts {
				if st.job.stop() {
					return
				}
				if i > 0 {
					st.restore(snap)
				}
				st.solver.Push()
				if m, ok := st.altModels[alt.cond.id]; ok {
					st.model = m
				} else if st.model != nil && !alt.cond.IsConst() && st.tp.Eval(alt.cond, st.model) == 0 {
					st.model = nil
				}
				st.addPC(alt.cond, true)
				if alt.apply != nil {
					alt.apply()
				}
				st.depth++
				st.explore()
				st.depth--
				st.solver.Pop()
			}
			st.restore(snap)
			return
		}
	}
}

// ---------- job bookkeeping ----------

type Violation struct {
	Label   string            `json:"label"`
	Harness string            `json:"harness"`
	Kind    string            `json:"kind"` // assert | panic | fail
	Draws   []DrawValue       `json:"draws"`
	Where   string            `json:"where,omitempty"`
	Known   string            `json:"known,omitempty"`
	Params  map[string]string `json:"params,omitempty"`
}

type DrawValue struct {
	Tag   string `json:"tag"`
	Kind  string `json:"kind"`
	Value string `json:"value"` // decimal for ints, hex for bytes, "true"/"false", float bits hex
}

type Job struct {
	Harness string
	Params  map[string]string
	maxSteps int64
	deadline time.Time
	maxPreempt int

	paths           map[string]int
	symPaths        int
	forks           int
	quick           int
	unknownBranches int
	nq              [3]int
	violations      []Violation
	violCount       map[string]int
	knownHits       map[string]int
	asserts         map[string]*AssertStat
	reach           map[string]*DrawSet
	reachCount      map[string]int
	forkSites       map[string]int
	inconclusive    []string
	stopped         bool
	funcs           map[string]int
	maxViol         int
	solverTime      time.Duration
	wall            time.Duration
	kfOpen          map[string]bool
}

type AssertStat struct {
	Proved  int
	Failed  int
	Unknown int
	Trivial int
}

type DrawSet struct {
	Draws []DrawValue
}

func (j *Job) noteQuery(r SatResult) { j.nq[r]++ }

func (j *Job) stop() bool {
	if j.stopped {
		return true
	}
	if !j.deadline.IsZero() && time.Now().After(j.deadline) {
		j.stopped = true
		j.inconclusive = append(j.inconclusive, "job deadline exceeded")
		return true
	}
	return false
}

func (st *State) finishPath(k endKind, msg string) {
	j := st.job
	name := [...]string{"none", "return", "assume-false", "panic", "unsupported", "unwind", "deadlock", "assert-stop"}[k]
	j.paths[name]++
	if len(st.pc) > 0 {
		j.symPaths++
	}
	switch k {
	case endPanic:
		st.recordViolation("panic", "panic", msg)
	case endUnsupported:
		if len(j.inconclusive) < 20 {
			j.inconclusive = append(j.inconclusive, "unsupported: "+msg)
		}
	case endUnwind:
		if len(j.inconclusive) < 20 {
			j.inconclusive = append(j.inconclusive, "unwinding: "+msg)
		}
	case endDeadlock:
		st.recordViolation("deadlock", "deadlock", msg)
	}
	if st.eng.verbose > 0 {
		fmt.Printf("[path] %s %s depth=%d steps=%d\n", name, msg, st.depth, st.steps)
	}
}

func (st *State) currentDraws(m Model) []DrawValue {
	out := make([]DrawValue, 0, len(st.draws))
	for _, d := range st.draws {
		dv := DrawValue{Tag: d.Tag, Kind: d.Kind}
		switch d.Kind {
		case "bytes":
			b := make([]byte, len(d.Sub))
			for i, t := range d.Sub {
				b[i] = byte(st.tp.Eval(t, m))
			}
			dv.Value = fmt.Sprintf("%x", b)
		case "bool":
			dv.Value = fmt.Sprintf("%v", st.tp.Eval(d.Term, m) != 0)
		case "f64":
			dv.Value = fmt.Sprintf("%x", st.tp.Eval(d.Term, m))
		default:
			dv.Value = fmt.Sprintf("%d", st.tp.Eval(d.Term, m))
		}
		out = append(out, dv)
	}
	return out
}

func (st *State) recordViolation(label, kind, where string) {
	j := st.job
	j.violCount[label]++
	if j.violCount[label] > j.maxViol {
		return
	}
	m := st.model
	if m == nil {
		// need a model of the current pc
		st.solver.Push()
		r := st.solver.Check()
		j.noteQuery(r)
		if r == Sat {
			m = st.solver.GetModel(st.vars)
		}
		st.solver.Pop()
	}
	if m == nil {
		m = Model{}
	}
	j.violations = append(j.violations, Violation{Label: label, Harness: j.Harness, Kind: kind, Draws: st.currentDraws(m), Where: where, Params: j.Params})
}
