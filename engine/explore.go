package main

import (
	"fmt"
	"sort"
	"time"
)

// ---------- path condition / feasibility ----------

func (st *State) boundsOf(t *Term) (uint64, uint64) {
	if b, ok := st.rb[t.id]; ok {
		return b[0], b[1]
	}
	if k, ok := st.known[t.id]; ok {
		return k, k
	}
	return t.lo, t.hi
}

func (st *State) setBounds(t *Term, lo, hi uint64) {
	if t.sort.K != KBV || t.IsConst() {
		return
	}
	olo, ohi := st.boundsOf(t)
	if lo < olo {
		lo = olo
	}
	if hi > ohi {
		hi = ohi
	}
	if lo == olo && hi == ohi || lo > hi {
		return
	}
	old, had := st.rb[t.id]
	st.rb[t.id] = [2]uint64{lo, hi}
	id := t.id
	st.trailFunc(func() {
		if had {
			st.rb[id] = old
		} else {
			delete(st.rb, id)
		}
	})
	// propagate through zext / extract-free wrappers
	if t.op == OpZext {
		st.setBounds(t.args[0], lo, hi)
	}
}

func (st *State) refine(c *Term, pos bool) {
	switch c.op {
	case OpNot:
		st.refine(c.args[0], !pos)
	case OpAnd:
		if pos {
			st.refine(c.args[0], true)
			st.refine(c.args[1], true)
		}
	case OpOr:
		if !pos {
			st.refine(c.args[0], false)
			st.refine(c.args[1], false)
		}
	case OpBVUlt, OpBVUle:
		a, b := c.args[0], c.args[1]
		strict := c.op == OpBVUlt
		if !pos {
			// not(a<b) == b<=a ; not(a<=b) == b<a
			a, b = b, a
			strict = !strict
		}
		m := mask(a.sort.W)
		// a < b or a <= b
		alo, _ := st.boundsOf(a)
		_, bhi := st.boundsOf(b)
		if strict {
			if bhi > 0 {
				st.setBounds(a, 0, bhi-1)
			}
			if alo < m {
				st.setBounds(b, alo+1, m)
			}
		} else {
			st.setBounds(a, 0, bhi)
			st.setBounds(b, alo, m)
		}
	case OpEq:
		if pos && c.args[0].sort.K == KBV {
			a, b := c.args[0], c.args[1]
			alo, ahi := st.boundsOf(a)
			blo, bhi := st.boundsOf(b)
			st.setBounds(a, blo, bhi)
			st.setBounds(b, alo, ahi)
		}
	}
}

// quickDecide uses refined bounds to decide comparisons without the solver.
func (st *State) quickDecide(c *Term) (val, ok bool) {
	switch c.op {
	case OpNot:
		v, ok := st.quickDecide(c.args[0])
		return !v, ok
	case OpBVUlt, OpBVUle:
		alo, ahi := st.boundsOf(c.args[0])
		blo, bhi := st.boundsOf(c.args[1])
		if c.op == OpBVUlt {
			if ahi < blo {
				return true, true
			}
			if alo >= bhi {
				return false, true
			}
		} else {
			if ahi <= blo {
				return true, true
			}
			if alo > bhi {
				return false, true
			}
		}
	case OpEq:
		if c.args[0].sort.K == KBV {
			alo, ahi := st.boundsOf(c.args[0])
			blo, bhi := st.boundsOf(c.args[1])
			if ahi < blo || bhi < alo {
				return false, true
			}
			if alo == ahi && blo == bhi && alo == blo {
				return true, true
			}
		}
	}
	return false, false
}

func (st *State) addPC(c *Term, fromFork bool) {
	if c.IsConst() {
		return
	}
	st.pc = append(st.pc, c)
	st.refine(c, true)
}

func (st *State) evalModel(c *Term) int {
	if st.model == nil {
		return -1
	}
	return int(st.tp.Eval(c, st.model))
}

// relevant returns the conjuncts of the path condition that (transitively) share variables with the given terms.
func (st *State) relevant(extra []*Term) []*Term {
	if st.job.noSlicing {
		return st.pc
	}
	syms := map[int]struct{}{}
	for _, e := range extra {
		for _, s := range e.syms {
			syms[s] = struct{}{}
		}
	}
	used := make([]bool, len(st.pc))
	var out []*Term
	for changed := true; changed; {
		changed = false
		for i, c := range st.pc {
			if used[i] {
				continue
			}
			hit := false
			for _, s := range c.syms {
				if _, ok := syms[s]; ok {
					hit = true
					break
				}
			}
			if hit {
				used[i] = true
				out = append(out, c)
				for _, s := range c.syms {
					if _, ok := syms[s]; !ok {
						syms[s] = struct{}{}
						changed = true
					}
				}
			}
		}
	}
	return out
}

// solve checks satisfiability of (relevant slice of pc) ∧ extra. On sat with wantModel, the returned model is a
// model of the whole path condition: the slice's variables take their new values, all others keep st.model's.
func (st *State) solve(extra []*Term, wantModel bool) (SatResult, Model) {
	t0 := time.Now()
	defer func() { st.job.solveTime += time.Since(t0) }()
	rel := st.relevant(extra)
	if wantModel && st.model == nil {
		rel = st.pc
	}
	if r, m, ok := st.bruteForce(rel, extra, wantModel); ok {
		st.job.brute++
		return r, m
	}
	if st.hasFPArith(rel, extra) {
		// cheap sound pre-check: floating-point arithmetic results abstracted to free values (see Solver.abstractFP)
		if st.absSolver == nil {
			if av, err := NewSolver(st.solver.kind, st.tp, st.solver.timeout); err == nil {
				av.abstractFP = true
				st.absSolver = av
			}
		}
		if av := st.absSolver; av != nil && !av.dead {
			for _, c := range rel {
				av.define(c)
			}
			for _, e := range extra {
				av.define(e)
			}
			av.Push()
			for _, c := range rel {
				av.AssertDefined(c)
			}
			for _, e := range extra {
				av.AssertDefined(e)
			}
			r := av.Check()
			av.Pop()
			if r == Unsat && !av.dead {
				st.job.noteQuery(r)
				st.job.fpAbstracted++
				return Unsat, nil
			}
		}
	}
	sv := st.solver
	for _, c := range rel {
		sv.define(c)
	}
	for _, e := range extra {
		sv.define(e)
	}
	sv.Push()
	for _, c := range rel {
		sv.AssertDefined(c)
	}
	for _, e := range extra {
		sv.AssertDefined(e)
	}
	r := sv.Check()
	var m Model
	if r == Sat && wantModel {
		// variables of the slice
		ids := map[int]struct{}{}
		for _, c := range rel {
			for _, s := range c.syms {
				ids[s] = struct{}{}
			}
		}
		for _, e := range extra {
			for _, s := range e.syms {
				ids[s] = struct{}{}
			}
		}
		var vs []*Term
		for _, v := range st.vars {
			if _, ok := ids[v.id]; ok {
				vs = append(vs, v)
			}
		}
		part := sv.GetModel(vs)
		m = Model{}
		for k, v := range st.model {
			m[k] = v
		}
		for _, v := range vs {
			m[v.id] = part[v.id]
		}
	}
	sv.Pop()
	st.job.noteQuery(r)
	if sv.dead {
		panic(fmt.Sprintf("solver died: %s", sv.lastErr))
	}
	return r, m
}

// bruteForce decides a slice whose variables have at most 16 bits in total by evaluation.
func (st *State) bruteForce(rel, extra []*Term, wantModel bool) (SatResult, Model, bool) {
	ids := map[int]struct{}{}
	for _, c := range rel {
		for _, s := range c.syms {
			ids[s] = struct{}{}
		}
	}
	for _, e := range extra {
		for _, s := range e.syms {
			ids[s] = struct{}{}
		}
	}
	if len(ids) > 4 {
		return 0, nil, false
	}
	var vs []*Term
	bits := 0
	for _, v := range st.vars {
		if _, ok := ids[v.id]; ok {
			if v.sort.K == KFP {
				return 0, nil, false
			}
			w := v.sort.W
			if v.sort.K == KBool {
				w = 1
			}
			bits += w
			vs = append(vs, v)
		}
	}
	if bits > 10 || len(vs) != len(ids) {
		return 0, nil, false
	}
	m := Model{}
	for k, v := range st.model {
		m[k] = v
	}
	all := append(append([]*Term{}, rel...), extra...)
	n := uint64(1) << uint(bits)
	for a := uint64(0); a < n; a++ {
		x := a
		for _, v := range vs {
			w := v.sort.W
			if v.sort.K == KBool {
				w = 1
			}
			m[v.id] = x & mask(w)
			x >>= uint(w)
		}
		ctx := &evalCtx{m: m, cache: map[int]uint64{}}
		ok := true
		for _, c := range all {
			if ctx.eval(c) == 0 {
				ok = false
				break
			}
		}
		if ok {
			if !wantModel {
				return Sat, nil, true
			}
			return Sat, m, true
		}
	}
	return Unsat, nil, true
}

// solveFallback re-discharges an obligation that came back unknown: other solvers, fresh process, 4x the time.
// hasFPArith reports whether any of the terms contains floating-point arithmetic (memoised per term id).
func (st *State) hasFPArith(rel, extra []*Term) bool {
	if st.fpArith == nil {
		st.fpArith = map[int]bool{}
	}
	var walk func(t *Term) bool
	walk = func(t *Term) bool {
		if v, ok := st.fpArith[t.id]; ok {
			return v
		}
		v := t.op == OpFPAdd || t.op == OpFPSub || t.op == OpFPMul || t.op == OpFPDiv
		if !v {
			for i := 0; i < t.n; i++ {
				if walk(t.args[i]) {
					v = true
					break
				}
			}
		}
		st.fpArith[t.id] = v
		return v
	}
	for _, c := range rel {
		if walk(c) {
			return true
		}
	}
	for _, e := range extra {
		if walk(e) {
			return true
		}
	}
	return false
}

func (st *State) solveFallback(extra []*Term) (SatResult, Model) {
	kinds := []string{"z3", "cvc5"}
	if st.solver.kind != "z3-new" {
		kinds = []string{"z3-new", "z3"}
	}
	for _, k := range kinds {
		sv, err := NewSolver(k, st.tp, 4*st.solver.timeout)
		if err != nil {
			continue
		}
		rel := st.relevant(extra)
		for _, c := range rel {
			sv.Assert(c)
		}
		for _, e := range extra {
			sv.Assert(e)
		}
		r := sv.Check()
		var m Model
		if r == Sat {
			part := sv.GetModel(st.vars)
			m = Model{}
			for kk, v := range st.model {
				m[kk] = v
			}
			for kk, v := range part {
				m[kk] = v
			}
		}
		sv.Close()
		st.job.noteQuery(r)
		st.job.fallbacks++
		if r != Unknown {
			return r, m
		}
	}
	return Unknown, nil
}

// query asks whether pc ∧ c is satisfiable. Unknown counts as feasible.
func (st *State) query(c *Term) bool {
	t0 := time.Now()
	r, m := st.solve([]*Term{c}, true)
	if d := time.Since(t0); d > 2*time.Second && st.eng.verbose > 0 {
		fmt.Printf("[slow query %.1fs %v] %s\n   cond: %s\n", d.Seconds(), r, st.where(), printTermShort(c, 8))
	}
	switch r {
	case Unsat:
		return false
	case Sat:
		st.altModels[c.id] = m
		return true
	}
	st.job.unknownBranches++
	return true
}

func (st *State) feasible2(c *Term) (ft, ff bool) {
	for k := range st.altModels {
		delete(st.altModels, k)
	}
	if d, ok := st.quickDecide(c); ok {
		st.job.quick++
		return d, !d
	}
	nc := st.tp.Not(c)
	switch st.evalModel(c) {
	case 1:
		st.altModels[c.id] = st.model
		return true, st.query(nc)
	case 0:
		st.altModels[nc.id] = st.model
		return st.query(c), true
	}
	return st.query(c), st.query(nc)
}

// enumerate lists feasible values of t under the current path condition.
func (st *State) enumerate(t *Term, max int) ([]uint64, bool) {
	var vals []uint64
	var block []*Term
	for len(vals) <= max {
		extra := block
		r, m := st.solveWithSyms(extra, t)
		if r == Unsat {
			sort.Slice(vals, func(i, j int) bool { return vals[i] < vals[j] })
			return vals, true
		}
		if r == Unknown {
			return vals, false
		}
		v := st.tp.Eval(t, m)
		vals = append(vals, v)
		block = append(block, st.tp.Not(st.tp.Eq(t, st.tp.BVConst(t.sort.W, v))))
	}
	return vals, false
}

// solveWithSyms is solve() where the slice is additionally seeded with the variables of t.
func (st *State) solveWithSyms(extra []*Term, t *Term) (SatResult, Model) {
	// a tautology mentioning t pulls t's cluster into the slice
	taut := st.tp.mk(OpOr, BoolSort, []*Term{st.tp.Eq(t, st.tp.BVConst(t.sort.W, 0)), st.tp.Not(st.tp.Eq(t, st.tp.BVConst(t.sort.W, 0)))}, 0, "", 0, 0)
	ex := append([]*Term{taut}, extra...)
	return st.solve(ex, true)
}

func (st *State) varsOf(t *Term) []*Term {
	var out []*Term
	ids := map[int]bool{}
	for _, id := range t.syms {
		ids[id] = true
	}
	for _, v := range st.vars {
		if ids[v.id] {
			out = append(out, v)
		}
	}
	return out
}

// ---------- snapshots ----------

type snapshot struct {
	gs       []*Goroutine
	cur      int
	trail    int
	pcLen    int
	drawsLen int
	varsLen  int
	model    Model
	now      Value
	steps    int64
	sched    *Sched
	nextG    int
}

func cloneFrame(f *Frame) *Frame {
	nf := *f
	nf.regs = make([]Value, len(f.regs))
	copy(nf.regs, f.regs)
	if len(f.defers) > 0 {
		nf.defers = make([]deferred, len(f.defers))
		copy(nf.defers, f.defers)
	}
	if f.visits != nil {
		nf.visits = make(map[int]int, len(f.visits))
		for k, v := range f.visits {
			nf.visits[k] = v
		}
	}
	return &nf
}

func cloneG(g *Goroutine) *Goroutine {
	ng := *g
	ng.frames = make([]*Frame, len(g.frames))
	for i, f := range g.frames {
		ng.frames[i] = cloneFrame(f)
	}
	if g.panic != nil {
		p := *g.panic
		ng.panic = &p
	}
	if g.vc != nil {
		ng.vc = append([]int(nil), g.vc...)
	}
	return &ng
}

func (st *State) snapshot() *snapshot {
	s := &snapshot{cur: st.cur, trail: len(st.trail), pcLen: len(st.pc), drawsLen: len(st.draws), varsLen: len(st.vars),
		model: st.model, now: st.now, steps: st.steps}
	s.gs = make([]*Goroutine, len(st.gs))
	for i, g := range st.gs {
		s.gs[i] = cloneG(g)
	}
	if st.sched != nil {
		s.sched = st.sched.clone()
	}
	return s
}

func (st *State) restore(s *snapshot) {
	st.undoTo(s.trail)
	st.pc = st.pc[:s.pcLen]
	st.draws = st.draws[:s.drawsLen]
	st.vars = st.vars[:s.varsLen]
	st.model = s.model
	st.now = s.now
	st.steps = s.steps
	st.cur = s.cur
	st.gs = make([]*Goroutine, len(s.gs))
	for i, g := range s.gs {
		st.gs[i] = cloneG(g)
	}
	if s.sched != nil {
		st.sched = s.sched.clone()
	}
	st.pendingFork = nil
	st.endReason, st.endMsg = endNone, ""
}

// ---------- DFS ----------

func (st *State) explore() {
	if st.job.stop() {
		return
	}
	for {
		ev := st.scheduleAndRun()
		switch ev {
		case evDone:
			st.finishPath(endReturn, "")
			return
		case evEnd:
			st.finishPath(st.endReason, st.endMsg)
			return
		case evFork:
			alts := st.pendingFork
			st.pendingFork = nil
			st.job.forks++
			if st.job.forkSites != nil {
				key := fmt.Sprintf("%d-way @ %s", len(alts), st.whereShort())
				st.job.forkSites[key]++
				if st.eng.verbose > 2 && st.job.forkSites[key] < 3 {
					fmt.Printf("[fork] %s\n   stack: %s\n", key, st.where())
				}
			}
			snap := st.snapshot()
			for i, alt := range alts {
				if st.job.stop() {
					return
				}
				if i > 0 {
					st.restore(snap)
				}
				if m, ok := st.altModels[alt.cond.id]; ok {
					st.model = m
				} else if st.model != nil && !alt.cond.IsConst() && st.tp.Eval(alt.cond, st.model) == 0 {
					st.model = nil
				}
				st.addPC(alt.cond, true)
				if alt.apply != nil {
					alt.apply()
				}
				st.depth++
				st.explore()
				st.depth--
			}
			st.restore(snap)
			return
		}
	}
}

// ---------- job bookkeeping ----------

type Violation struct {
	Label   string            `json:"label"`
	Harness string            `json:"harness"`
	Kind    string            `json:"kind"` // assert | panic | fail
	Draws   []DrawValue       `json:"draws"`
	Where   string            `json:"where,omitempty"`
	Known   string            `json:"known,omitempty"`
	Params  map[string]string `json:"params,omitempty"`
}

type DrawValue struct {
	Tag   string `json:"tag"`
	Kind  string `json:"kind"`
	Value string `json:"value"` // decimal for ints, hex for bytes, "true"/"false", float bits hex
}

type Job struct {
	Harness string
	Params  map[string]string
	maxSteps int64
	deadline time.Time
	maxPreempt int

	paths           map[string]int
	symPaths        int
	forks           int
	quick           int
	unknownBranches int
	nq              [3]int
	violations      []Violation
	violCount       map[string]int
	knownHits       map[string]int
	asserts         map[string]*AssertStat
	reach           map[string]*DrawSet
	reachCount      map[string]int
	forkSites       map[string]int
	noSlicing       bool
	brute           int
	pruned          int
	fallbacks       int
	fpAbstracted    int // obligations/branches decided unsat on the floating-point abstraction
	race            bool
	raceCount       int
	labels          []string
	solveTime       time.Duration
	inconclusive    []string
	stopped         bool
	funcs           map[string]int
	maxViol         int
	solverTime      time.Duration
	wall            time.Duration
	kfOpen          map[string]bool
}

type AssertStat struct {
	Proved  int
	Failed  int
	Unknown int
	Trivial int
}

type DrawSet struct {
	Draws []DrawValue
}

func (j *Job) noteQuery(r SatResult) { j.nq[r]++ }

func (j *Job) stop() bool {
	if j.stopped {
		return true
	}
	if !j.deadline.IsZero() && time.Now().After(j.deadline) {
		j.stopped = true
		j.inconclusive = append(j.inconclusive, "job deadline exceeded")
		return true
	}
	return false
}

func (st *State) finishPath(k endKind, msg string) {
	j := st.job
	name := [...]string{"none", "return", "assume-false", "panic", "unsupported", "unwind", "deadlock", "assert-stop"}[k]
	j.paths[name]++
	if len(st.pc) > 0 {
		j.symPaths++
	}
	switch k {
	case endPanic:
		// a Go panic escaping the code under test is a violation of whatever property the job decides: the run
		// that should have produced the stated result crashed instead (no unchanged-tree job has a panic path)
		st.recordViolation("panic", "panic", msg)
	case endUnsupported:
		if len(j.inconclusive) < 20 {
			j.inconclusive = append(j.inconclusive, "unsupported: "+msg)
		}
	case endUnwind:
		if len(j.inconclusive) < 20 {
			j.inconclusive = append(j.inconclusive, "unwinding: "+msg)
		}
	case endDeadlock:
		st.recordViolation("deadlock", "deadlock", msg)
	}
	if st.eng.verbose > 0 {
		fmt.Printf("[path] %s %s depth=%d steps=%d\n", name, msg, st.depth, st.steps)
	}
}

func (st *State) currentDraws(m Model) []DrawValue {
	out := make([]DrawValue, 0, len(st.draws))
	for _, d := range st.draws {
		dv := DrawValue{Tag: d.Tag, Kind: d.Kind}
		switch d.Kind {
		case "bytes":
			b := make([]byte, len(d.Sub))
			for i, t := range d.Sub {
				b[i] = byte(st.tp.Eval(t, m))
			}
			dv.Value = fmt.Sprintf("%x", b)
		case "bool":
			dv.Value = fmt.Sprintf("%v", st.tp.Eval(d.Term, m) != 0)
		case "f64":
			dv.Value = fmt.Sprintf("%x", st.tp.Eval(d.Term, m))
		default:
			dv.Value = fmt.Sprintf("%d", st.tp.Eval(d.Term, m))
		}
		out = append(out, dv)
	}
	return out
}

func (st *State) recordViolation(label, kind, where string) {
	j := st.job
	j.violCount[label]++
	if j.violCount[label] > j.maxViol {
		return
	}
	m := st.model
	if m == nil {
		// need a model of the current pc
		_, m = st.solve(nil, true)
	}
	if m == nil {
		m = Model{}
	}
	j.violations = append(j.violations, Violation{Label: label, Harness: j.Harness, Kind: kind, Draws: st.currentDraws(m), Where: where, Params: j.Params})
}
