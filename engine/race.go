package main

// Happens-before data race monitor (vector clocks). Enabled per job (param race=1).
// Edges: go statement (parent -> child), unlock -> lock, wg.Done -> wg.Wait, send/close -> receive, atomic
// release/acquire, Once. Every load/store of heap memory executed while more than one goroutine exists is checked
// against the previous accesses of the same cells by other goroutines.

import (
	"fmt"
)

type vclock map[int]int

func (v vclock) clone() vclock {
	c := make(vclock, len(v))
	for k, x := range v {
		c[k] = x
	}
	return c
}

func (v vclock) join(o vclock) {
	for k, x := range o {
		if x > v[k] {
			v[k] = x
		}
	}
}

type accessRec struct {
	gid   int
	clock int // the accessing goroutine's own component at the time
	write bool
	off   int
	n     int
	sidx  *Term
	stride int
	where string
}

type syncKey struct {
	o   *Obj
	off int
}

type raceState struct {
	objVC map[syncKey]vclock   // release clocks of synchronisation objects
	acc   map[*Obj][]accessRec // access history of data objects
	mapAcc map[*MapObj][]accessRec
}

func (st *State) raceOn() bool { return st.job != nil && st.job.race && st.trailOn }

func (st *State) gvc(g *Goroutine) vclock {
	if g.vcm == nil {
		g.vcm = vclock{g.id: 1}
	}
	return g.vcm
}

func (st *State) hbFork(parent, child *Goroutine) {
	if !st.raceOn() {
		return
	}
	pv := st.gvc(parent)
	child.vcm = pv.clone()
	child.vcm[child.id] = 1
	pv[parent.id]++
}

func (st *State) hbExit(g *Goroutine) {}

func (st *State) hbRelease(obj *Obj, offs ...int) {
	if !st.raceOn() || obj == nil {
		return
	}
	o := syncKey{o: obj}
	if len(offs) > 0 {
		o.off = offs[0]
	}
	g := st.curG()
	gv := st.gvc(g)
	rs := st.raceSt()
	old := rs.objVC[o]
	nv := vclock{}
	if old != nil {
		nv = old.clone()
	}
	nv.join(gv)
	rs.objVC[o] = nv
	st.trailFunc(func() {
		if old == nil {
			delete(rs.objVC, o)
		} else {
			rs.objVC[o] = old
		}
	})
	// advance own component (copy on write: snapshots share the map)
	ng := gv.clone()
	ng[g.id]++
	g.vcm = ng
}

func (st *State) hbAcquire(obj *Obj, offs ...int) {
	if !st.raceOn() || obj == nil {
		return
	}
	o := syncKey{o: obj}
	if len(offs) > 0 {
		o.off = offs[0]
	}
	g := st.curG()
	rs := st.raceSt()
	ov := rs.objVC[o]
	if ov == nil {
		return
	}
	ng := st.gvc(g).clone()
	ng.join(ov)
	g.vcm = ng
}

func (st *State) raceSt() *raceState {
	if st.race == nil {
		st.race = &raceState{objVC: map[syncKey]vclock{}, acc: map[*Obj][]accessRec{}, mapAcc: map[*MapObj][]accessRec{}}
	}
	return st.race
}

// overlap decides whether two accesses may touch a common cell; symbolic indices are decided by the solver.
func (st *State) overlap(a, b *accessRec) bool {
	if a.sidx == nil && b.sidx == nil {
		return a.off < b.off+b.n && b.off < a.off+a.n
	}
	// position = off + sidx*stride (+ [0,n))
	p := st.tp
	pos := func(r *accessRec) *Term {
		base := p.BVConst(64, uint64(r.off))
		if r.sidx == nil {
			return base
		}
		return p.Add(base, p.Mul(r.sidx, p.BVConst(64, uint64(r.stride))))
	}
	pa, pb := pos(a), pos(b)
	// intervals [pa, pa+na) and [pb, pb+nb) intersect
	c := p.And(p.Ult(pa, p.Add(pb, p.BVConst(64, uint64(b.n)))), p.Ult(pb, p.Add(pa, p.BVConst(64, uint64(a.n)))))
	if c.IsConst() {
		return c.val != 0
	}
	r, _ := st.solve([]*Term{c}, false)
	return r != Unsat
}

func (st *State) raceAccess(ptr Pointer, n int, w bool) {
	if !st.raceOn() || len(st.gs) <= 1 || ptr.obj == nil {
		return
	}
	g := st.curG()
	if g.id < 0 {
		return
	}
	o := ptr.obj
	if o.syncObj {
		return
	}
	rs := st.raceSt()
	gv := st.gvc(g)
	cur := accessRec{gid: g.id, clock: gv[g.id], write: w, off: ptr.off, n: n, sidx: ptr.sidx, stride: ptr.stride}
	hist := rs.acc[o]
	for i := range hist {
		h := &hist[i]
		if h.gid == g.id || (!h.write && !w) {
			continue
		}
		if h.clock <= gv[h.gid] {
			continue // ordered by happens-before
		}
		if !st.overlap(h, &cur) {
			continue
		}
		cur.where = st.where()
		kind := "write/write"
		if !h.write || !w {
			kind = "read/write"
		}
		msg := fmt.Sprintf("data race (%s) on %s+%d between goroutine %d [%s] and goroutine %d [%s]", kind, o.name, ptr.off, h.gid, h.where, g.id, cur.where)
		st.job.raceCount++
		if st.job.labelActive("C14/") {
			st.recordViolation("C14/data-race:"+o.name, "race", msg)
		}
		return
	}
	// record (replace an older record of the same goroutine for the same cells)
	cur.where = st.whereShort()
	nh := make([]accessRec, 0, len(hist)+1)
	for _, h := range hist {
		if h.gid == g.id && h.off == cur.off && h.n == cur.n && h.sidx == cur.sidx && h.write == cur.write {
			continue
		}
		nh = append(nh, h)
	}
	nh = append(nh, cur)
	rs.acc[o] = nh
	st.trailFunc(func() { rs.acc[o] = hist })
}

// raceMap treats a map as one location (as the Go race detector does for map headers/buckets).
func (st *State) raceMap(m *MapObj, w bool) {
	if !st.raceOn() || len(st.gs) <= 1 || m == nil {
		return
	}
	g := st.curG()
	if g.id < 0 {
		return
	}
	rs := st.raceSt()
	gv := st.gvc(g)
	hist := rs.mapAcc[m]
	for i := range hist {
		h := &hist[i]
		if h.gid == g.id || (!h.write && !w) || h.clock <= gv[h.gid] {
			continue
		}
		msg := fmt.Sprintf("data race on map#%d between goroutine %d [%s] and goroutine %d [%s]", m.id, h.gid, h.where, g.id, st.where())
		st.job.raceCount++
		if st.job.labelActive("C14/") {
			st.recordViolation("C14/data-race:map", "race", msg)
		}
		return
	}
	cur := accessRec{gid: g.id, clock: gv[g.id], write: w, where: st.whereShort()}
	nh := make([]accessRec, 0, len(hist)+1)
	for _, h := range hist {
		if h.gid == g.id && h.write == w {
			continue
		}
		nh = append(nh, h)
	}
	nh = append(nh, cur)
	rs.mapAcc[m] = nh
	st.trailFunc(func() { rs.mapAcc[m] = hist })
}
