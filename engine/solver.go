package main

// Incremental SMT solver process (z3 -in or cvc5 --incremental) with push/pop
// and shared-subterm definitions.

import (
	"bufio"
	"fmt"
	"io"
	"math"
	"os/exec"
	"strconv"
	"strings"
	"time"
)

type SatResult int

const (
	Unsat SatResult = iota
	Sat
	Unknown
)

func (r SatResult) String() string { return [...]string{"unsat", "sat", "unknown"}[r] }

type SolverStats struct {
	Queries  int
	NSat     int
	NUnsat   int
	NUnknown int
	Time     time.Duration
	ModelTime time.Duration
	SendTime time.Duration
}

type Solver struct {
	kind    string // "z3", "z3-new", "cvc5", "cvc5-int"
	cmd     *exec.Cmd
	in      io.WriteCloser
	out     *bufio.Reader
	pool    *TermPool
	defined map[int]int // term id -> level
	levels  [][]int
	Stats   SolverStats
	timeout int // ms per check
	log     io.Writer
	dead    bool
	slowHook func(time.Duration, SatResult)
	lastErr string
	// abstractFP: floating-point arithmetic nodes (add/sub/mul/div) are declared as unconstrained values of their
	// sort instead of being defined. Every model of the precise formula is a model of the abstraction, so an
	// "unsat" from an abstracting solver is a sound "unsat"; "sat" means nothing and the precise query decides.
	abstractFP bool
}

func NewSolver(kind string, pool *TermPool, timeoutMs int) (*Solver, error) {
	var cmd *exec.Cmd
	switch kind {
	case "z3":
		cmd = exec.Command("z3", "-in", fmt.Sprintf("-t:%d", timeoutMs))
	case "z3-new":
		cmd = exec.Command("z3-new", "-in", fmt.Sprintf("-t:%d", timeoutMs))
	case "cvc5":
		cmd = exec.Command("cvc5", "--incremental", "--produce-models", "--lang=smt2", fmt.Sprintf("--tlimit-per=%d", timeoutMs))
	case "cvc5-int":
		cmd = exec.Command("cvc5", "--incremental", "--produce-models", "--lang=smt2", "--solve-bv-as-int=sum", fmt.Sprintf("--tlimit-per=%d", timeoutMs))
	default:
		return nil, fmt.Errorf("unknown solver %q", kind)
	}
	in, err := cmd.StdinPipe()
	if err != nil {
		return nil, err
	}
	outp, err := cmd.StdoutPipe()
	if err != nil {
		return nil, err
	}
	cmd.Stderr = cmd.Stdout
	if err := cmd.Start(); err != nil {
		return nil, err
	}
	s := &Solver{kind: kind, cmd: cmd, in: in, out: bufio.NewReaderSize(outp, 1<<16), pool: pool,
		defined: map[int]int{}, levels: [][]int{nil}, timeout: timeoutMs}
	if strings.HasPrefix(kind, "cvc5") {
		s.send("(set-logic ALL)")
	}
	s.send("(set-option :produce-models true)")
	return s, nil
}

func (s *Solver) Close() {
	if s.cmd != nil {
		s.in.Close()
		s.cmd.Process.Kill()
		s.cmd.Wait()
		s.cmd = nil
	}
}

func (s *Solver) send(line string) {
	if s.log != nil {
		fmt.Fprintln(s.log, line)
	}
	t0 := time.Now()
	defer func() { s.Stats.SendTime += time.Since(t0) }()
	if _, err := io.WriteString(s.in, line+"\n"); err != nil {
		s.dead = true
		s.lastErr = err.Error()
	}
}

func (s *Solver) Push() {
	s.send("(push 1)")
	s.levels = append(s.levels, nil)
}

func (s *Solver) Pop() {
	s.send("(pop 1)")
	top := s.levels[len(s.levels)-1]
	for _, id := range top {
		delete(s.defined, id)
	}
	s.levels = s.levels[:len(s.levels)-1]
}

func (s *Solver) Level() int { return len(s.levels) - 1 }

func (s *Solver) markDefined(id int) {
	l := len(s.levels) - 1
	s.defined[id] = l
	s.levels[l] = append(s.levels[l], id)
}

// define makes sure every non-leaf subterm of t has a define-fun in scope.
func (s *Solver) define(t *Term) {
	if t.op == OpConst {
		return
	}
	if _, ok := s.defined[t.id]; ok {
		return
	}
	// iterative post-order to avoid deep recursion on ite chains
	type fr struct {
		t *Term
		i int
	}
	stack := []fr{{t, 0}}
	for len(stack) > 0 {
		f := &stack[len(stack)-1]
		if f.i < f.t.n {
			c := f.t.args[f.i]
			f.i++
			if c.op == OpConst {
				continue
			}
			if _, ok := s.defined[c.id]; ok {
				continue
			}
			stack = append(stack, fr{c, 0})
			continue
		}
		cur := f.t
		stack = stack[:len(stack)-1]
		if _, ok := s.defined[cur.id]; ok {
			continue
		}
		if cur.op == OpVar || (s.abstractFP && (cur.op == OpFPAdd || cur.op == OpFPSub || cur.op == OpFPMul || cur.op == OpFPDiv)) {
			s.send(fmt.Sprintf("(declare-fun %s () %s)", smtName(cur), cur.sort.SMT()))
		} else {
			s.send(fmt.Sprintf("(define-fun %s () %s %s)", smtName(cur), cur.sort.SMT(), headSMT(cur, s.ref)))
		}
		s.markDefined(cur.id)
	}
}

func (s *Solver) ref(t *Term) string {
	if t.op == OpConst {
		return constSMT(t)
	}
	return smtName(t)
}

func (s *Solver) Assert(t *Term) {
	if t.IsConst() {
		s.send("(assert " + constSMT(t) + ")")
		return
	}
	s.define(t)
	s.send("(assert " + smtName(t) + ")")
}

// AssertDefined asserts a term whose definition is already in scope.
func (s *Solver) AssertDefined(t *Term) {
	if t.IsConst() {
		s.send("(assert " + constSMT(t) + ")")
		return
	}
	if _, ok := s.defined[t.id]; !ok {
		s.define(t)
	}
	s.send("(assert " + smtName(t) + ")")
}

func (s *Solver) readLine() string {
	line, err := s.out.ReadString('\n')
	if err != nil {
		s.dead = true
		s.lastErr = "solver died: " + err.Error()
		return ""
	}
	return strings.TrimSpace(line)
}

func (s *Solver) Check() SatResult {
	t0 := time.Now()
	s.send("(check-sat)")
	res := Unknown
	for {
		line := s.readLine()
		if s.dead {
			break
		}
		if line == "" {
			continue
		}
		if line == "sat" {
			res = Sat
			break
		}
		if line == "unsat" {
			res = Unsat
			break
		}
		if line == "unknown" || line == "timeout" {
			res = Unknown
			break
		}
		if strings.HasPrefix(line, "(error") {
			s.lastErr = line
			// keep reading until a verdict arrives; verdict is untrustworthy -> unknown
			for {
				l2 := s.readLine()
				if s.dead || l2 == "sat" || l2 == "unsat" || l2 == "unknown" {
					break
				}
			}
			res = Unknown
			break
		}
		// other noise (e.g. cvc5 interrupted message)
		if strings.Contains(line, "interrupted") || strings.Contains(line, "resource") {
			continue
		}
	}
	s.Stats.Queries++
	s.Stats.Time += time.Since(t0)
	if d := time.Since(t0); d > 2*time.Second && s.slowHook != nil {
		s.slowHook(d, res)
	}
	switch res {
	case Sat:
		s.Stats.NSat++
	case Unsat:
		s.Stats.NUnsat++
	default:
		s.Stats.NUnknown++
	}
	return res
}

// CheckWith: push, assert extra, check, (model), pop.
func (s *Solver) CheckWith(extra *Term, vars []*Term) (SatResult, Model) {
	s.Push()
	s.Assert(extra)
	r := s.Check()
	var m Model
	if r == Sat && vars != nil {
		m = s.GetModel(vars)
	}
	s.Pop()
	return r, m
}

// GetModel returns values for the given variables (must be declared in scope).
func (s *Solver) GetModel(vars []*Term) Model {
	t0 := time.Now()
	defer func() { s.Stats.ModelTime += time.Since(t0) }()
	m := Model{}
	var names []string
	byName := map[string]*Term{}
	for _, v := range vars {
		if _, ok := s.defined[v.id]; !ok {
			continue // unconstrained: default 0
		}
		n := smtName(v)
		names = append(names, n)
		byName[n] = v
	}
	if len(names) == 0 {
		return m
	}
	// chunk to keep lines reasonable
	for i := 0; i < len(names); i += 200 {
		j := i + 200
		if j > len(names) {
			j = len(names)
		}
		s.send("(get-value (" + strings.Join(names[i:j], " ") + "))")
		txt := s.readSexp()
		if s.dead {
			return m
		}
		sx, _ := parseSexp(txt)
		for _, pair := range sx.list {
			if len(pair.list) != 2 {
				continue
			}
			name := pair.list[0].atom
			if !strings.HasPrefix(name, "|") {
				name = "|" + name + "|"
			}
			v, ok := byName[name]
			if !ok {
				continue
			}
			m[v.id] = sexpValue(pair.list[1], v.sort)
		}
	}
	return m
}

func (s *Solver) readSexp() string {
	var sb strings.Builder
	depth := 0
	started := false
	inBar := false
	for {
		line, err := s.out.ReadString('\n')
		if err != nil {
			s.dead = true
			s.lastErr = "solver died: " + err.Error()
			return sb.String()
		}
		for _, ch := range line {
			if ch == '|' {
				inBar = !inBar
			}
			if inBar {
				continue
			}
			if ch == '(' {
				depth++
				started = true
			} else if ch == ')' {
				depth--
			}
		}
		sb.WriteString(line)
		if started && depth <= 0 {
			return sb.String()
		}
		if !started && strings.TrimSpace(line) != "" {
			return sb.String()
		}
	}
}

type sexp struct {
	atom string
	list []*sexp
	isL  bool
}

func parseSexp(txt string) (*sexp, int) {
	i := 0
	var parse func() *sexp
	skip := func() {
		for i < len(txt) && (txt[i] == ' ' || txt[i] == '\n' || txt[i] == '\t' || txt[i] == '\r') {
			i++
		}
	}
	parse = func() *sexp {
		skip()
		if i >= len(txt) {
			return &sexp{}
		}
		if txt[i] == '(' {
			i++
			n := &sexp{isL: true}
			for {
				skip()
				if i >= len(txt) {
					return n
				}
				if txt[i] == ')' {
					i++
					return n
				}
				n.list = append(n.list, parse())
			}
		}
		st := i
		if txt[i] == '|' {
			i++
			for i < len(txt) && txt[i] != '|' {
				i++
			}
			i++
			return &sexp{atom: txt[st:i]}
		}
		for i < len(txt) && txt[i] != ' ' && txt[i] != '\n' && txt[i] != ')' && txt[i] != '(' && txt[i] != '\t' && txt[i] != '\r' {
			i++
		}
		return &sexp{atom: txt[st:i]}
	}
	r := parse()
	return r, i
}

func atomBV(a string) (uint64, bool) {
	if strings.HasPrefix(a, "#x") {
		v, err := strconv.ParseUint(a[2:], 16, 64)
		return v, err == nil
	}
	if strings.HasPrefix(a, "#b") {
		v, err := strconv.ParseUint(a[2:], 2, 64)
		return v, err == nil
	}
	return 0, false
}

func sexpValue(x *sexp, so Sort) uint64 {
	switch so.K {
	case KBool:
		return b2u(x.atom == "true")
	case KBV:
		if !x.isL {
			v, _ := atomBV(x.atom)
			return v
		}
		// (_ bv10 32)
		if len(x.list) == 3 && strings.HasPrefix(x.list[1].atom, "bv") {
			v, _ := strconv.ParseUint(x.list[1].atom[2:], 10, 64)
			return v
		}
		return 0
	default:
		eb, sb := 11, 52
		if so.W == 32 {
			eb, sb = 8, 23
		}
		if x.isL && len(x.list) == 4 && x.list[0].atom == "fp" {
			sg, _ := atomBV(x.list[1].atom)
			ex, _ := atomBV(x.list[2].atom)
			mn, _ := atomBV(x.list[3].atom)
			return sg<<uint(eb+sb) | ex<<uint(sb) | mn
		}
		if x.isL && len(x.list) == 4 && x.list[0].atom == "_" {
			var f float64
			switch x.list[1].atom {
			case "+zero":
				f = 0
			case "-zero":
				f = math.Copysign(0, -1)
			case "+oo":
				f = math.Inf(1)
			case "-oo":
				f = math.Inf(-1)
			default:
				f = math.NaN()
			}
			return fpb(so.W, f)
		}
		return 0
	}
}
