package main

import (
	"fmt"
	"go/types"
	"strings"

	"golang.org/x/tools/go/ssa"
)

// Value is one of:
//   uint64 (any concrete integer, masked to its width), bool, float64, string  -- concrete scalars
//   *Term                                   -- symbolic scalar
//   *SymStr                                 -- string with symbolic bytes, concrete length
//   Pointer, Slice, Iface, *Closure, *MapObj, *ChanObj, *ssa.Function(as *Closure), Agg, Tuple
type Value interface{}

type Obj struct {
	id    int
	slots []Value
	name  string
	// for data race monitor
	shared bool
	dirty  map[int]struct{} // big objects: cells ever written
	syncObj bool            // cells are only touched by synchronisation models
}

type Pointer struct {
	obj    *Obj
	off    int
	sidx   *Term // optional symbolic element index; position = off + sidx*stride
	stride int
	cLo    int // candidate element index range [cLo,cHi)
	cHi    int
	fn     *Closure // pointer-to-function sentinel unused
}

func (p Pointer) IsNil() bool { return p.obj == nil }

type Slice struct {
	obj *Obj
	off int   // slot offset of element 0
	len Value // uint64 or *Term (64-bit)
	cap int   // elements
	esz int   // slots per element
	nil_ bool
}

type Agg []Value
type Tuple []Value

type Iface struct {
	typ types.Type // nil => nil interface
	val Value
}

type Closure struct {
	fn     *ssa.Function
	env    []Value
	native string // name of a builtin/native when fn==nil
	recv   Value  // bound receiver for native bound methods
	id     int
}

type SymStr struct {
	b []Value // each uint64 or *Term(8)
}

type mapEntry struct {
	key  Value
	val  Value
	dead bool
	sym  bool
}

type MapObj struct {
	id      int
	entries []mapEntry
	index   map[string]int // canonical concrete key -> entry index
	nsym    int
	ktype   types.Type
	vtype   types.Type
}

type ChanObj struct {
	id    int
	cap   int
	etype types.Type
	st    *Obj
}

// ---------- layouts ----------

type Layout struct {
	n      int
	zeros  []Value
	fields []int // struct field offsets
	esz    int   // array element slots
	agg    bool
	leaf   []types.Type // leaf type per slot
}

type typeCache struct {
	m map[types.Type]*Layout
}

func isAggType(t types.Type) bool {
	switch t.Underlying().(type) {
	case *types.Struct, *types.Array:
		return true
	}
	return false
}

func (st *State) layout(t types.Type) *Layout { return st.eng.layout(t) }

func (st *State) computeLayout(t types.Type) *Layout {
	switch u := t.Underlying().(type) {
	case *types.Struct:
		l := &Layout{agg: true}
		for i := 0; i < u.NumFields(); i++ {
			fl := st.layout(u.Field(i).Type())
			l.fields = append(l.fields, l.n)
			l.n += fl.n
			l.zeros = append(l.zeros, fl.zeros...)
			l.leaf = append(l.leaf, fl.leaf...)
		}
		return l
	case *types.Array:
		el := st.layout(u.Elem())
		n := int(u.Len())
		l := &Layout{agg: true, esz: el.n, n: el.n * n}
		l.leaf = make([]types.Type, 0, l.n)
		for i := 0; i < n; i++ {
			l.leaf = append(l.leaf, el.leaf...)
		}
		if el.n == 1 {
			z := el.zeros[0]
			l.zeros = make([]Value, n)
			for i := range l.zeros {
				l.zeros[i] = z
			}
		} else {
			l.zeros = make([]Value, 0, l.n)
			for i := 0; i < n; i++ {
				l.zeros = append(l.zeros, el.zeros...)
			}
		}
		return l
	case *types.Tuple:
		panic("layout of tuple")
	}
	return &Layout{n: 1, zeros: []Value{zeroScalar(t)}, leaf: []types.Type{t}}
}

func zeroScalar(t types.Type) Value {
	switch u := t.Underlying().(type) {
	case *types.Basic:
		switch {
		case u.Info()&types.IsBoolean != 0:
			return false
		case u.Info()&types.IsInteger != 0:
			return uint64(0)
		case u.Info()&types.IsFloat != 0:
			return float64(0)
		case u.Info()&types.IsString != 0:
			return ""
		case u.Kind() == types.UnsafePointer:
			return Pointer{}
		case u.Kind() == types.UntypedNil:
			return Iface{}
		}
		panic("zero of basic " + u.String())
	case *types.Pointer:
		return Pointer{}
	case *types.Slice:
		return Slice{nil_: true, len: uint64(0)}
	case *types.Interface:
		return Iface{}
	case *types.Map:
		return (*MapObj)(nil)
	case *types.Chan:
		return (*ChanObj)(nil)
	case *types.Signature:
		return (*Closure)(nil)
	case *types.TypeParam:
		panic("zero of type param")
	}
	panic(fmt.Sprintf("zeroScalar: %T %v", t.Underlying(), t))
}

func (st *State) zero(t types.Type) Value {
	l := st.layout(t)
	if l.agg {
		a := make(Agg, l.n)
		copy(a, l.zeros)
		return a
	}
	return l.zeros[0]
}

// intInfo returns width and signedness for integer types.
func intInfo(t types.Type) (w int, signed bool, ok bool) {
	b, isB := t.Underlying().(*types.Basic)
	if !isB {
		return 0, false, false
	}
	switch b.Kind() {
	case types.Int8:
		return 8, true, true
	case types.Int16:
		return 16, true, true
	case types.Int32:
		return 32, true, true
	case types.Int64, types.Int, types.UntypedInt, types.UntypedRune:
		return 64, true, true
	case types.Uint8:
		return 8, false, true
	case types.Uint16:
		return 16, false, true
	case types.Uint32:
		return 32, false, true
	case types.Uint64, types.Uint, types.Uintptr:
		return 64, false, true
	}
	return 0, false, false
}

func floatWidth(t types.Type) (int, bool) {
	b, isB := t.Underlying().(*types.Basic)
	if !isB {
		return 0, false
	}
	switch b.Kind() {
	case types.Float32:
		return 32, true
	case types.Float64, types.UntypedFloat:
		return 64, true
	}
	return 0, false
}

func isString(t types.Type) bool {
	b, ok := t.Underlying().(*types.Basic)
	return ok && b.Info()&types.IsString != 0
}
func isBool(t types.Type) bool {
	b, ok := t.Underlying().(*types.Basic)
	return ok && b.Info()&types.IsBoolean != 0
}

// ---------- conversions between concrete values and terms ----------

func (st *State) toTerm(v Value, t types.Type) *Term {
	switch x := v.(type) {
	case *Term:
		return x
	case uint64:
		w, _, ok := intInfo(t)
		if !ok {
			panic(fmt.Sprintf("toTerm: uint64 for non-int type %v", t))
		}
		return st.tp.BVConst(w, x)
	case bool:
		return st.tp.Bool(x)
	case float64:
		w, _ := floatWidth(t)
		return st.tp.FPConst(w, x)
	}
	panic(fmt.Sprintf("toTerm: unsupported %T (%v)", v, t))
}

func (st *State) intTerm(v Value, w int) *Term {
	switch x := v.(type) {
	case *Term:
		if x.sort.K != KBV || x.sort.W != w {
			panic(fmt.Sprintf("intTerm: width mismatch want %d have %v", w, x.sort))
		}
		return x
	case uint64:
		return st.tp.BVConst(w, x)
	}
	panic(fmt.Sprintf("intTerm: %T", v))
}

func (st *State) boolTerm(v Value) *Term {
	switch x := v.(type) {
	case *Term:
		return x
	case bool:
		return st.tp.Bool(x)
	}
	panic(fmt.Sprintf("boolTerm: %T", v))
}

// norm turns constant terms into concrete values.
func norm(v Value) Value {
	if t, ok := v.(*Term); ok && t.IsConst() {
		switch t.sort.K {
		case KBool:
			return t.val != 0
		case KBV:
			return t.val
		case KFP:
			return fpOf(t)
		}
	}
	return v
}

func isSym(v Value) bool {
	_, ok := v.(*Term)
	return ok
}

func valueString(v Value) string {
	switch x := v.(type) {
	case nil:
		return "<nil>"
	case uint64:
		return fmt.Sprintf("%d", x)
	case bool, float64:
		return fmt.Sprintf("%v", x)
	case string:
		return fmt.Sprintf("%q", x)
	case *Term:
		return x.String()
	case Pointer:
		if x.obj == nil {
			return "nilptr"
		}
		return fmt.Sprintf("&%s#%d+%d", x.obj.name, x.obj.id, x.off)
	case Slice:
		if x.obj == nil {
			return "slice(nil)"
		}
		return fmt.Sprintf("slice(%s#%d+%d len=%s cap=%d)", x.obj.name, x.obj.id, x.off, valueString(x.len), x.cap)
	case Agg:
		var sb strings.Builder
		sb.WriteString("{")
		for i, e := range x {
			if i > 0 {
				sb.WriteString(",")
			}
			if i > 12 {
				sb.WriteString("...")
				break
			}
			sb.WriteString(valueString(e))
		}
		sb.WriteString("}")
		return sb.String()
	case Tuple:
		return "tuple" + valueString(Agg(x))
	case Iface:
		if x.typ == nil {
			return "iface(nil)"
		}
		return fmt.Sprintf("iface(%v:%s)", x.typ, valueString(x.val))
	case *Closure:
		if x == nil {
			return "func(nil)"
		}
		if x.fn != nil {
			return "func " + x.fn.String()
		}
		return "native " + x.native
	case *MapObj:
		if x == nil {
			return "map(nil)"
		}
		return fmt.Sprintf("map#%d(%d)", x.id, len(x.entries))
	case *ChanObj:
		return "chan"
	case *SymStr:
		return fmt.Sprintf("symstr(%d)", len(x.b))
	}
	return fmt.Sprintf("%T", v)
}
