package main

import (
	"encoding/json"
	"flag"
	"fmt"
	"os"
	"path/filepath"
	"runtime"
	"runtime/pprof"
	"sort"
	"strings"
	"sync"
	"time"

	"golang.org/x/tools/go/packages"
	"golang.org/x/tools/go/ssa"
	"golang.org/x/tools/go/ssa/ssautil"
)

const modPath = "github.com/DataDog/datadog-traceroute"

func envOr(k, d string) string {
	if v := os.Getenv(k); v != "" {
		return v
	}
	return d
}

// buildOverlay maps harness sources into the repository tree (nothing is written to the repo).
func buildOverlay(repo, hdir string) (map[string][]byte, []string, map[string]string, error) {
	ov := map[string][]byte{}
	files := map[string]string{} // virtual -> real
	pkgset := map[string]bool{}
	err := filepath.Walk(hdir, func(p string, info os.FileInfo, err error) error {
		if err != nil {
			return err
		}
		if info.IsDir() || !strings.HasSuffix(p, ".go") {
			return nil
		}
		rel, _ := filepath.Rel(hdir, p)
		dir := filepath.Dir(rel)
		base := filepath.Base(rel)
		if strings.HasSuffix(base, "_test.go") {
			return nil
		}
		data, err := os.ReadFile(p)
		if err != nil {
			return err
		}
		virt := filepath.Join(repo, dir, "zz_verif_"+base)
		ov[virt] = data
		files[virt] = p
		pkgset["./"+dir] = true
		return nil
	})
	if err != nil {
		return nil, nil, nil, err
	}
	// seams: a one-line prologue inserted into selected functions of the real source (in memory only), so that a
	// harness can substitute the platform boundary (sockets, dialing, protocol runners). The rest of the file is the
	// repository's current text; a seam whose anchor line is gone is an error, never silently skipped.
	seamOut := envOr("VERIF_SEAM_DIR", "")
	if data, rerr := os.ReadFile(filepath.Join(hdir, "seams.json")); rerr == nil {
		var seams []Seam
		if jerr := json.Unmarshal(data, &seams); jerr != nil {
			return nil, nil, nil, fmt.Errorf("seams.json: %v", jerr)
		}
		texts := map[string]string{}
		for _, sm := range seams {
			path := filepath.Join(repo, sm.File)
			txt, ok := texts[path]
			if !ok {
				b, rerr := os.ReadFile(path)
				if rerr != nil {
					return nil, nil, nil, fmt.Errorf("seam %s: %v", sm.File, rerr)
				}
				txt = string(b)
			}
			if strings.Count(txt, sm.After) != 1 {
				return nil, nil, nil, fmt.Errorf("seam anchor not found exactly once in %s: %q", sm.File, sm.After)
			}
			txt = strings.Replace(txt, sm.After, sm.After+"\n"+sm.Insert, 1)
			txt += "\n" + sm.Decl + "\n"
			texts[path] = txt
		}
		for path, txt := range texts {
			ov[path] = []byte(txt)
			if seamOut != "" {
				cp := filepath.Join(seamOut, strings.ReplaceAll(strings.TrimPrefix(path, repo+"/"), "/", "_"))
				if werr := os.WriteFile(cp, []byte(txt), 0o644); werr != nil {
					return nil, nil, nil, werr
				}
				files[path] = cp
			}
		}
	}
	var pkgs []string
	for p := range pkgset {
		pkgs = append(pkgs, p)
	}
	sort.Strings(pkgs)
	return ov, pkgs, files, err
}

// Seam describes one prologue insertion (see buildOverlay).
type Seam struct {
	File   string `json:"file"`
	After  string `json:"after"`
	Insert string `json:"insert"`
	Decl   string `json:"decl"`
}

func loadProgram(repo, hdir string, extraPkgs []string) (*Engine, error) {
	ov, pkgs, _, err := buildOverlay(repo, hdir)
	if err != nil {
		return nil, err
	}
	pkgs = append(pkgs, extraPkgs...)
	cfg := &packages.Config{
		Mode:    packages.LoadAllSyntax,
		Dir:     repo,
		Overlay: ov,
		Env:     append(os.Environ(), "GOFLAGS=-mod=mod", "GOPROXY=off", "CGO_ENABLED=0"),
	}
	initial, err := packages.Load(cfg, pkgs...)
	if err != nil {
		return nil, err
	}
	nerr := 0
	packages.Visit(initial, nil, func(p *packages.Package) {
		for _, e := range p.Errors {
			if nerr < 20 {
				fmt.Fprintf(os.Stderr, "load error: %v\n", e)
			}
			nerr++
		}
	})
	if nerr > 0 {
		return nil, fmt.Errorf("%d package load errors", nerr)
	}
	prog, spkgs := ssautil.AllPackages(initial, ssa.InstantiateGenerics)
	prog.Build()
	e := &Engine{prog: prog, repoRoot: repo, redirects: map[string]string{}}
	for _, p := range spkgs {
		if p != nil {
			e.pkgs = append(e.pkgs, p)
		}
	}
	e.redirects["errors.Is"] = verifPkg + ".ErrorsIs"
	e.redirects["errors.As"] = verifPkg + ".ErrorsAs"
	e.redirects["github.com/google/gopacket.FoldChecksum"] = verifPkg + ".ModelFoldChecksum"
	e.redirects["github.com/google/gopacket/layers.tcpipChecksum"] = verifPkg + ".ModelTcpipChecksum"
	e.redirects["github.com/google/gopacket/layers.checksum"] = verifPkg + ".ModelIPv4Checksum"
	e.redirects["(*net/http.Client).Do"] = modPath + "/publicip.vClientDo"
	e.redirects["(*os.File).Read"] = modPath + "/packets.vFileRead" // model AF_PACKET socket (C09 frame level)
	e.redirects["syscall.Recvfrom"] = modPath + "/packets.vRecvfrom" // model socket behind SetBPFAndDrain (C10)
	e.redirects["golang.org/x/sys/unix.SetsockoptSockFprog"] = modPath + "/packets.vSetsockoptSockFprog"
	e.redirects["syscall.SetsockoptInt"] = modPath + "/packets.vSetsockoptInt"
	e.redirects["context.Background"] = verifPkg + ".CtxBackground"
	e.redirects["context.TODO"] = verifPkg + ".CtxBackground"
	e.redirects["context.WithCancel"] = verifPkg + ".CtxWithCancel"
	e.redirects["context.WithCancelCause"] = verifPkg + ".CtxWithCancelCause"
	e.redirects["context.WithTimeout"] = verifPkg + ".CtxWithTimeout"
	e.redirects["context.WithDeadline"] = verifPkg + ".CtxWithDeadline"
	e.redirects["context.Cause"] = verifPkg + ".CtxCause"
	return e, nil
}

func (e *Engine) newState(job *Job, solverKind string, timeoutMs int) (*State, error) {
	tp := NewTermPool()
	sv, err := NewSolver(solverKind, tp, timeoutMs)
	if err != nil {
		return nil, err
	}
	st := &State{eng: e, tp: tp, solver: sv, globals: map[*ssa.Global]*Obj{}, initFailed: map[*ssa.Package]string{}, inited: map[*ssa.Package]bool{},
		known: map[int]uint64{}, uniq: map[string]Pointer{}, errSent: map[string]Value{}, rb: map[int][2]uint64{},
		now: uint64(1_000_000_000_000), job: job, model: Model{}, sched: &Sched{nextGID: 1}, schedChoice: map[string]int{}, altModels: map[int]Model{}}
	return st, nil
}

type JobSpec struct {
	Pkg       string            `json:"pkg"`
	Harness   string            `json:"harness"`
	Params    map[string]string `json:"params,omitempty"`
	TimeoutS  int               `json:"timeout_s,omitempty"`
	MaxSteps  int64             `json:"max_steps,omitempty"`
	Solver    string            `json:"solver,omitempty"`
	QueryMs   int               `json:"query_ms,omitempty"`
	Preempt   *int              `json:"max_preempt,omitempty"`
	Expect    []string          `json:"reach,omitempty"`
	MayPanic  bool              `json:"may_panic,omitempty"`
	Labels    []string          `json:"labels,omitempty"`
	NoReplay  bool              `json:"no_replay,omitempty"`
}

func (e *Engine) runJob(spec JobSpec, kfOpen map[string]bool) (job *Job) {
	job = &Job{Harness: spec.Pkg + "." + spec.Harness, Params: spec.Params, paths: map[string]int{}, violCount: map[string]int{},
		knownHits: map[string]int{}, asserts: map[string]*AssertStat{}, reach: map[string]*DrawSet{}, reachCount: map[string]int{},
		funcs: map[string]int{}, forkSites: map[string]int{}, maxViol: 2, kfOpen: kfOpen, maxPreempt: -1}
	job.labels = spec.Labels
	job.race = spec.Params["race"] == "1"
	if job.Params == nil {
		job.Params = map[string]string{}
	}
	if spec.Preempt != nil {
		job.maxPreempt = *spec.Preempt
	}
	job.maxSteps = spec.MaxSteps
	if job.maxSteps == 0 {
		job.maxSteps = 20_000_000
	}
	to := spec.TimeoutS
	if to == 0 {
		to = 600
	}
	t0 := time.Now()
	job.deadline = t0.Add(time.Duration(to) * time.Second)
	solver := spec.Solver
	if solver == "" {
		solver = "z3-new"
	}
	qms := spec.QueryMs
	if qms == 0 {
		qms = 20000
	}
	st, err := e.newState(job, solver, qms)
	if err != nil {
		job.inconclusive = append(job.inconclusive, "solver start: "+err.Error())
		return job
	}
	defer st.solver.Close()
	defer func() {
		if st.absSolver != nil {
			st.absSolver.Close()
		}
	}()
	if smtLogPath != "" {
		f, _ := os.Create(smtLogPath)
		st.solver.log = f
		defer f.Close()
	}
	if e.verbose > 0 {
		st.solver.slowHook = func(d time.Duration, r SatResult) {
			fmt.Printf("[slow check %.1fs %v] pc=%d %s\n", d.Seconds(), r, len(st.pc), st.where())
		}
	}
	defer func() {
		job.wall = time.Since(t0)
		job.solverTime = st.solver.Stats.Time
		if e.verbose > 0 {
			fmt.Printf("solver: check %.1fs model %.1fs send %.1fs\n", st.solver.Stats.Time.Seconds(), st.solver.Stats.ModelTime.Seconds(), st.solver.Stats.SendTime.Seconds())
		}
		if r := recover(); r != nil {
			buf := make([]byte, 8192)
			n := runtime.Stack(buf, false)
			job.inconclusive = append(job.inconclusive, fmt.Sprintf("engine panic: %v\n%s", r, buf[:n]))
		}
	}()
	pkg := e.prog.ImportedPackage(modPath + "/" + spec.Pkg)
	if spec.Pkg == "." || spec.Pkg == "" {
		pkg = e.prog.ImportedPackage(modPath)
	}
	if pkg == nil {
		job.inconclusive = append(job.inconclusive, "package not found: "+spec.Pkg)
		return job
	}
	fn := pkg.Func(spec.Harness)
	if fn == nil {
		job.inconclusive = append(job.inconclusive, "harness not found: "+spec.Harness)
		return job
	}
	g := &Goroutine{id: 0, name: "main"}
	st.gs = []*Goroutine{g}
	// package initialisation (untrailed)
	func() {
		defer func() {
			if r := recover(); r != nil {
				if u, ok := r.(unsupported); ok {
					job.inconclusive = append(job.inconclusive, "init: "+u.msg)
					return
				}
				panic(r)
			}
		}()
		st.ensureInit(pkg)
		if vp := e.prog.ImportedPackage(verifPkg); vp != nil {
			st.ensureInit(vp)
		}
	}()
	if len(job.inconclusive) > 0 {
		return job
	}
	st.trailOn = true
	st.steps = 0
	st.pushFrame(g, fn, nil, nil, -1)
	st.explore()
	// expected reach marks
	for _, m := range spec.Expect {
		if _, ok := job.reach[m]; !ok {
			job.inconclusive = append(job.inconclusive, "vacuity: mark "+m+" never reached")
		}
	}
	return job
}

type jobReport struct {
	Harness      string                 `json:"harness"`
	Params       map[string]string      `json:"params,omitempty"`
	Paths        map[string]int         `json:"paths"`
	SymPaths     int                    `json:"paths_with_symbolic_condition"`
	Forks        int                    `json:"forks"`
	Queries      map[string]int         `json:"queries"`
	QuickDecided int                    `json:"decided_by_intervals"`
	Brute        int                    `json:"decided_by_enumeration"`
	Asserts      map[string]*AssertStat `json:"assertions"`
	Reach        map[string]int         `json:"reach_marks"`
	Violations   []Violation            `json:"violations,omitempty"`
	KnownHits    map[string]int         `json:"known_finding_hits,omitempty"`
	Inconclusive []string               `json:"inconclusive,omitempty"`
	WallS        float64                `json:"wall_s"`
	SolverS      float64                `json:"solver_s"`
}

func (j *Job) report() jobReport {
	return jobReport{Harness: j.Harness, Params: j.Params, Paths: j.paths, SymPaths: j.symPaths, Forks: j.forks,
		Queries: map[string]int{"unsat": j.nq[Unsat], "sat": j.nq[Sat], "unknown": j.nq[Unknown]}, QuickDecided: j.quick, Brute: j.brute,
		Asserts: j.asserts, Reach: j.reachCount, Violations: j.violations, KnownHits: j.knownHits, Inconclusive: j.inconclusive,
		WallS: j.wall.Seconds(), SolverS: j.solveTime.Seconds()}
}

func main() {
	if len(os.Args) < 2 {
		fmt.Fprintln(os.Stderr, "usage: symgo run|check ...")
		os.Exit(2)
	}
	switch os.Args[1] {
	case "run":
		cmdRun(os.Args[2:])
	case "check":
		cmdCheck(os.Args[2:])
	default:
		fmt.Fprintln(os.Stderr, "unknown command")
		os.Exit(2)
	}
}

type paramFlag map[string]string

func (p paramFlag) String() string { return fmt.Sprint(map[string]string(p)) }
func (p paramFlag) Set(s string) error {
	i := strings.Index(s, "=")
	if i < 0 {
		return fmt.Errorf("param must be k=v")
	}
	p[s[:i]] = s[i+1:]
	return nil
}

func cmdRun(args []string) {
	fs := flag.NewFlagSet("run", flag.ExitOnError)
	repo := fs.String("repo", envOr("VERIF_REPO", "/repo"), "repository root")
	hdir := fs.String("harness", "/verif/harness", "harness dir")
	pkg := fs.String("pkg", "", "package (relative)")
	fn := fs.String("fn", "", "harness function")
	verbose := fs.Int("v", 0, "verbosity")
	timeout := fs.Int("timeout", 600, "seconds")
	solver := fs.String("solver", "z3-new", "solver")
	smtlog := fs.String("smtlog", "", "log solver input")
	cpuprof := fs.String("cpuprofile", "", "write cpu profile")
	qms := fs.Int("qms", 0, "per-query timeout ms")
	preempt := fs.Int("preempt", -1, "max preemptive context switches (-1 unlimited)")
	params := paramFlag{}
	fs.Var(params, "p", "param k=v")
	fs.Parse(args)
	t0 := time.Now()
	e, err := loadProgram(*repo, *hdir, nil)
	if err != nil {
		fmt.Fprintln(os.Stderr, err)
		os.Exit(2)
	}
	if *cpuprof != "" {
		f, _ := os.Create(*cpuprof)
		pprof.StartCPUProfile(f)
		defer pprof.StopCPUProfile()
	}
	e.verbose = *verbose
	fmt.Printf("loaded in %.1fs\n", time.Since(t0).Seconds())
	smtLogPath = *smtlog
	job := e.runJob(JobSpec{Pkg: *pkg, Harness: *fn, Params: params, TimeoutS: *timeout, Solver: *solver, QueryMs: *qms, Preempt: preempt}, loadKnown())
	out, _ := json.MarshalIndent(job.report(), "", " ")
	fmt.Println(string(out))
	if *verbose > 0 {
		type kv struct {
			k string
			v int
		}
		var l []kv
		for k, v := range job.funcs {
			l = append(l, kv{k, v})
		}
		sort.Slice(l, func(i, j int) bool { return l[i].v > l[j].v })
		for i, x := range l {
			if i > 40 {
				break
			}
			fmt.Printf("  %8d %s\n", x.v, x.k)
		}
		l = nil
		for k, v := range job.forkSites {
			l = append(l, kv{k, v})
		}
		sort.Slice(l, func(i, j int) bool { return l[i].v > l[j].v })
		fmt.Println("fork sites:")
		for i, x := range l {
			if i > 40 {
				break
			}
			fmt.Printf("  %8d %s\n", x.v, x.k)
		}
	}
}

var smtLogPath string

// ---------- known findings ----------

type KnownFinding struct {
	Property string `json:"property"`
	ID       string `json:"id"`
	Status   string `json:"status"` // open | fixed
	Commit   string `json:"commit,omitempty"`
	What     string `json:"what"`
}

func loadKnownFile() []KnownFinding {
	data, err := os.ReadFile(envOr("VERIF_KNOWN", "/verif/known_findings.json"))
	if err != nil {
		return nil
	}
	var l []KnownFinding
	json.Unmarshal(data, &l)
	return l
}

func loadKnown() map[string]bool {
	m := map[string]bool{}
	for _, k := range loadKnownFile() {
		if k.Status == "open" {
			m[k.ID] = true
		}
	}
	return m
}

// ---------- check driver ----------

type CheckSpec struct {
	Property    string              `json:"property"`
	Labels      []string            `json:"labels,omitempty"`
	Tiers       map[string]TierSpec `json:"tiers"`
	Assumptions []string            `json:"assumptions"`
	Bounds      map[string]string   `json:"bounds"`
	Outside     []string            `json:"outside_bounds"`
	Models      []string            `json:"models_used"`
}

type TierSpec struct {
	Jobs    []JobSpec         `json:"jobs"`
	Labels  []string          `json:"labels,omitempty"`
	Bounds  map[string]string `json:"bounds,omitempty"`
	Workers int               `json:"workers,omitempty"`
}

func cmdCheck(args []string) {
	fs := flag.NewFlagSet("check", flag.ExitOnError)
	repo := fs.String("repo", envOr("VERIF_REPO", "/repo"), "repository root")
	hdir := fs.String("harness", "/verif/harness", "harness dir")
	specPath := fs.String("spec", "", "check spec json")
	tier := fs.String("tier", "quick", "quick|thorough")
	evidence := fs.String("evidence", "", "evidence output path")
	replayDir := fs.String("replays", "/verif/replays", "replay dir")
	noReplay := fs.Bool("noreplay", false, "skip native replay")
	fs.Parse(args)
	os.Exit(runCheck(*repo, *hdir, *specPath, *tier, *evidence, *replayDir, *noReplay))
}

func runCheck(repo, hdir, specPath, tier, evidencePath, replayDir string, noReplay bool) int {
	t0 := time.Now()
	data, err := os.ReadFile(specPath)
	if err != nil {
		fmt.Fprintln(os.Stderr, err)
		return 2
	}
	var spec CheckSpec
	if err := json.Unmarshal(data, &spec); err != nil {
		fmt.Fprintln(os.Stderr, "spec:", err)
		return 2
	}
	ts, ok := spec.Tiers[tier]
	if !ok {
		fmt.Fprintln(os.Stderr, "tier not in spec:", tier)
		return 2
	}
	e, err := loadProgram(repo, hdir, nil)
	if err != nil {
		fmt.Fprintln(os.Stderr, "load:", err)
		return 2
	}
	loadS := time.Since(t0).Seconds()
	known := loadKnownFile()
	kfOpen := map[string]bool{}
	for _, k := range known {
		if k.Status == "open" {
			kfOpen[k.ID] = true
		}
	}
	workers := ts.Workers
	if workers == 0 {
		workers = runtime.NumCPU()
	}
	jobs := make([]*Job, len(ts.Jobs))
	var wg sync.WaitGroup
	sem := make(chan struct{}, workers)
	for i := range ts.Jobs {
		wg.Add(1)
		go func(i int) {
			defer wg.Done()
			sem <- struct{}{}
			defer func() { <-sem }()
			js := ts.Jobs[i]
			if js.Labels == nil {
				js.Labels = ts.Labels
			}
			if js.Labels == nil {
				js.Labels = spec.Labels
			}
			jobs[i] = e.runJob(js, kfOpen)
		}(i)
	}
	wg.Wait()
	return finishCheck(e, &spec, tier, ts, jobs, known, evidencePath, replayDir, repo, hdir, noReplay, t0, loadS)
}
