#!/usr/bin/env python3
"""Generates the check specifications (checks/Cxx.json) from one compact description.
Run after editing:  python3 checks/gen.py"""
import json, os

HERE = os.path.dirname(os.path.abspath(__file__))

COMMON_ASSUME = [
    "engine: go/ssa (x/tools v0.29.0) semantics as implemented by /verif/engine (bit-vector integers of the Go width, flat slot memory); validated per run by replaying solver models natively",
    "solver: z3 5.1.0 (z3-new) verdicts; any (error or unknown makes the check inconclusive, never a pass",
    "summaries (each proved equivalent to the real function by harnesses Verif_Self_*): gopacket.FoldChecksum, layers.checksum, layers.tcpipChecksum = sum followed by two 16-bit folds",
    "stubs: repo logger = no-op; fmt.Errorf builds the real wrapError/wrapErrors/errorString objects with an opaque message; errors.Is/As = stdlib algorithm re-stated without reflection; time.Now/Since = virtual clock; math/rand = fresh unconstrained value per call",
]

MODELS = ["verif intrinsics", "virtual clock (time.Now/Since/Add)", "sync.Mutex", "fmt.Errorf / errors.Is / errors.As",
          "repo logger no-op", "math/rand fresh values", "unique.Make intern table", "checksum fold summaries",
          "model packets.Source/Sink (zzvnet)"]

STEP_BOUNDS = {
    "window": "MaxTTL-MinTTL <= W-1 with W=2 (quick) / 3 (thorough); MinTTL ranges over all of 1..255 (symbolic) unless a job fixes it",
    "packet": "one inbound packet of the job's length L, every byte symbolic",
    "option areas": "IPv4 header-length nibbles (outer, quoted) <= 5 and TCP data-offset nibble <= 5 unless the job raises maxIHL/maxQIHL/maxDOff; values < 5 are inside (error paths)",
    "nesting": "no IP-in-IP (protocols 4, 94) / IPv6-in-IPv6 (41) and no IPv6 hop-by-hop header unless the job sets ipip=1",
    "sends": "probes MinTTL..m sent in increasing order by the real SendProbe before the packet arrives, m symbolic in [MinTTL, MaxTTL]",
}
STEP_OUTSIDE = ["packets longer than the listed lengths", "option areas beyond the stated nibble bounds", "more than one level of IP-in-IP",
                "windows wider than W", "sequences of several inbound packets (state independence is checked separately in C09)"]


def J(pkg, harness, reach=None, timeout=600, **params):
    j = {"pkg": pkg, "harness": harness, "params": {k: str(v) for k, v in params.items()}, "timeout_s": timeout}
    if reach:
        j["reach"] = reach
    return j


ACC = ["accepted", "rejected"]


def step_jobs(tier):
    q = [
        J("icmp", "Verif_Step_icmp4_arb", ["accepted-dest", "rejected"], L=28),
        J("icmp", "Verif_Step_icmp4_arb", ["accepted-hop", "accepted-dest", "rejected"], L=56),
        J("icmp", "Verif_Step_icmp6_arb", ["accepted-dest", "rejected"], L=48),
        J("icmp", "Verif_Step_icmp6_arb", ["accepted-hop", "accepted-dest", "rejected"], L=96),
        J("udp", "Verif_Step_udp4_arb", ["accepted-hop", "accepted-dest", "rejected"], L=56, loosen=0),
        J("udp", "Verif_Step_udp4_arb", ["accepted-hop", "accepted-dest", "rejected"], L=56, loosen=1),
        J("udp", "Verif_Step_udp6_arb", ["accepted-hop", "accepted-dest", "rejected"], L=96, min=1, loosen=0),
        J("udp", "Verif_Step_udp6_arb", ["accepted-hop", "accepted-dest", "rejected"], L=96, min=254, loosen=1),
        J("tcp", "Verif_Step_tcp_arb", ["accepted-hop", "accepted-dest", "rejected"], L=56, paris=0, loosen=0),
        J("tcp", "Verif_Step_tcp_arb", ["accepted-hop", "accepted-dest", "rejected"], L=56, paris=1, loosen=1),
        J("tcp", "Verif_Step_tcp_arb", ["accepted-dest", "rejected"], L=40, paris=0, loosen=1),
        J("sack", "Verif_Step_sack_arb", ["accepted-icmp", "not-supported", "rejected"], L=56, loosen=1, max=30),
        J("sack", "Verif_Step_sack_arb", ["accepted-icmp", "not-supported", "rejected"], L=56, loosen=0, max=255),
        J("sack", "Verif_Step_sack_layout", ["accepted-sack", "rejected"], loosen=1, max=30, blocks=1),
    ]
    if tier == "quick":
        return q
    t = list(q)
    # every short length (truncations of every header), wider window, option-bearing headers, nesting
    for L in list(range(1, 28)) + [32, 36, 44, 48, 60]:
        t.append(J("icmp", "Verif_Step_icmp4_arb", None, L=L))
        t.append(J("udp", "Verif_Step_udp4_arb", None, L=L, loosen=0))
        t.append(J("tcp", "Verif_Step_tcp_arb", None, L=L, paris=0, loosen=0))
        t.append(J("sack", "Verif_Step_sack_arb", None, L=L, loosen=1, max=30))
    for L in list(range(1, 48, 3)) + [56, 64, 88]:
        t.append(J("icmp", "Verif_Step_icmp6_arb", None, L=L))
        t.append(J("udp", "Verif_Step_udp6_arb", None, L=L, min=2, loosen=0))
    t += [
        J("icmp", "Verif_Step_icmp4_arb", None, L=56, W=3),
        J("udp", "Verif_Step_udp4_arb", None, L=56, W=3, loosen=0),
        J("tcp", "Verif_Step_tcp_arb", None, L=56, W=3, paris=1, loosen=0),
        J("sack", "Verif_Step_sack_arb", None, L=56, W=3, loosen=0, max=64),
        J("icmp", "Verif_Step_icmp4_arb", None, L=56, ipip=1),
        J("udp", "Verif_Step_udp4_arb", None, L=56, ipip=1, loosen=1),
        J("tcp", "Verif_Step_tcp_arb", None, L=60, ipip=1, paris=0, loosen=0),
        J("icmp", "Verif_Step_icmp4_arb", None, L=60, maxIHL=6),
        J("udp", "Verif_Step_udp4_arb", None, L=60, maxIHL=6, loosen=0),
        J("tcp", "Verif_Step_tcp_arb", None, L=60, maxIHL=6, paris=0, loosen=0),
        J("icmp", "Verif_Step_icmp4_arb", None, L=60, maxQIHL=6),
        J("udp", "Verif_Step_udp4_arb", None, L=60, maxQIHL=6, loosen=1),
        J("tcp", "Verif_Step_tcp_arb", None, L=48, maxDOff=6, paris=0, loosen=0),
        J("sack", "Verif_Step_sack_arb", None, L=48, maxDOff=6, loosen=1, max=30),
        J("sack", "Verif_Step_sack_layout", ["accepted-sack"], loosen=1, max=30, blocks=2),
        J("sack", "Verif_Step_sack_layout", ["accepted-sack"], loosen=0, max=255, blocks=1, ts=1),
        J("udp", "Verif_Step_udp6_arb", None, L=96, min=127, loosen=0, W=3),
    ]
    return t


def c02_jobs(tier):
    jobs = []
    for f in range(5):
        jobs.append(J("icmp", "Verif_C02_icmp4", ["accepted"], form=f))
    for f in range(3):
        jobs.append(J("icmp", "Verif_C02_icmp6", ["accepted"], form=f))
    for f in range(5):
        jobs.append(J("udp", "Verif_C02_udp4", ["accepted"], form=f, loosen=f % 2))
    for f in range(3):
        jobs.append(J("udp", "Verif_C02_udp6", ["accepted"], form=f, min=[1, 128, 254][f], loosen=f % 2))
    for f in range(8):
        jobs.append(J("tcp", "Verif_C02_tcp", ["accepted"], form=f, paris=f % 2, loosen=(f // 2) % 2))
    for f in range(7):
        jobs.append(J("sack", "Verif_C02_sack", ["accepted"], form=f, max=[30, 255][f % 2], loosen=1, tsopt=f % 2))
    for f in range(4):
        jobs.append(J("sack", "Verif_C02_sack", ["accepted"], form=f, max=30, loosen=0))
    if tier == "thorough":
        for f in range(5):
            jobs.append(J("udp", "Verif_C02_udp4", ["accepted"], form=f, loosen=1 - f % 2, W=3))
            jobs.append(J("icmp", "Verif_C02_icmp4", ["accepted"], form=f, W=3, payload=40))
        for f in range(8):
            jobs.append(J("tcp", "Verif_C02_tcp", ["accepted"], form=f, paris=1 - f % 2, loosen=1 - (f // 2) % 2, W=3))
        for f in range(7):
            jobs.append(J("sack", "Verif_C02_sack", ["accepted"], form=f, max=[255, 30][f % 2], loosen=0, tsopt=1 - f % 2, W=3))
        for f in range(3):
            jobs.append(J("udp", "Verif_C02_udp6", ["accepted"], form=f, min=[200, 2, 60][f], loosen=1 - f % 2, W=3))
            jobs.append(J("icmp", "Verif_C02_icmp6", ["accepted"], form=f, W=3, payload=24))
    return jobs


SPECS = {}


def spec(prop, labels, quick, thorough, bounds, outside, assumptions=None, models=None):
    SPECS[prop] = {
        "property": prop,
        "labels": labels,
        "tiers": {"quick": {"jobs": quick}, "thorough": {"jobs": thorough}},
        "assumptions": COMMON_ASSUME + (assumptions or []),
        "bounds": bounds,
        "outside_bounds": outside,
        "models_used": models or MODELS,
    }


spec("C01", ["C01/", "send/", "setup/"], step_jobs("quick"), step_jobs("thorough"), STEP_BOUNDS, STEP_OUTSIDE,
     ["Paris-mode sequence numbers of two probes differ (the property allows 32-bit random collisions)",
      "at least one probe has been sent before the first receive (the engines guarantee it; checked in C03/C07)"])
spec("C04", ["C04/"], step_jobs("quick"), step_jobs("thorough"), STEP_BOUNDS, STEP_OUTSIDE)
spec("C09", ["C09/", "panic"], step_jobs("quick"), step_jobs("thorough"), STEP_BOUNDS,
     STEP_OUTSIDE + ["random / coverage-guided generation beyond the bound (a different technique; not substituted)"])
spec("C02", ["C02/", "send/", "setup/"], c02_jobs("quick"), c02_jobs("thorough"),
     {"window": STEP_BOUNDS["window"],
      "catalogue": "time-exceeded with 28-byte quote / full quote / 128-byte padded quote + 8-byte extension / outer header with 4 option bytes; rewritten quoted TOS, TTL, header checksum; ICMP unused bytes, outer TOS/ID/TTL/checksum/DF symbolic; destination-unreachable with every code (UDP); echo reply with symbolic payload; SYN-ACK with 20 option bytes / none, RST, RST-ACK; duplicate ACK with 1-3 SACK blocks at any position, with and without timestamps, every initial sequence number",
      "relaxed": "quoted source address and port replaced by fresh symbols when LoosenICMPSrc is set"},
     ["reply forms outside the catalogue", "timing (reply inside the listening window) is decided in C07/C08; filters in C12"])

for prop, s in SPECS.items():
    with open(os.path.join(HERE, prop + ".json"), "w") as f:
        json.dump(s, f, indent=1)
print("wrote", ", ".join(sorted(SPECS)))
