#!/usr/bin/env python3
"""Generates the check specifications (checks/Cxx.json) from one compact description.
Run after editing:  python3 checks/gen.py"""
import json, os

HERE = os.path.dirname(os.path.abspath(__file__))

COMMON_ASSUME = [
    "engine: go/ssa (x/tools v0.29.0) semantics as implemented by /verif/engine (bit-vector integers of the Go width, flat slot memory); validated per run by replaying solver models natively",
    "solver: z3 5.1.0 (z3-new) verdicts; any (error or unknown makes the check inconclusive, never a pass",
    "summaries (trusted by reading, not machine-checked: the real functions add the bytes as big-endian 16-bit words and then loop `for csum > 0xffff { csum = csum>>16 + csum&0xffff }`; two folds are exact for every 32-bit value): layers.checksum, layers.tcpipChecksum = sum followed by two 16-bit folds",
    "stubs: repo logger = no-op; fmt.Errorf builds the real wrapError/wrapErrors/errorString objects with an opaque message; errors.Is/As = stdlib algorithm re-stated without reflection; time.Now/Since = virtual clock; math/rand = fresh unconstrained value per call",
]

MODELS = ["verif intrinsics", "virtual clock (time.Now/Since/Add)", "sync.Mutex", "fmt.Errorf / errors.Is / errors.As",
          "repo logger no-op", "math/rand fresh values", "unique.Make intern table", "checksum fold summaries",
          "model packets.Source/Sink (zzvnet)"]

STEP_BOUNDS = {
    "window": "MaxTTL-MinTTL <= W-1 with W=2 (quick) / 3 (thorough); MinTTL ranges over all of 1..255 (symbolic) unless a job fixes it",
    "packet": "one inbound packet of the job's length L, every byte symbolic",
    "option areas": "IPv4 header-length nibbles (outer, quoted) <= 5 and TCP data-offset nibble <= 5 unless the job raises maxIHL/maxQIHL/maxDOff; values < 5 are inside (error paths)",
    "nesting": "no IP-in-IP (protocols 4, 94) / IPv6-in-IPv6 (41) and no IPv6 hop-by-hop header unless the job sets ipip=1",
    "sends": "probes MinTTL..m sent in increasing order by the real SendProbe before the packet arrives, m symbolic in [MinTTL, MaxTTL]",
}
STEP_OUTSIDE = ["packets longer than the listed lengths", "option areas beyond the stated nibble bounds", "more than one level of IP-in-IP",
                "windows wider than W", "sequences of several inbound packets (state independence is checked separately in C09)"]


def J(pkg, harness, reach=None, timeout=600, solver=None, query_ms=None, no_replay=False, max_preempt=None, **params):
    j = {"pkg": pkg, "harness": harness, "params": {k: str(v) for k, v in params.items()}, "timeout_s": timeout}
    if no_replay:
        j["no_replay"] = True
    if max_preempt is not None:
        j["max_preempt"] = max_preempt
    if solver:
        j["solver"] = solver
    if query_ms:
        j["query_ms"] = query_ms
    if reach:
        j["reach"] = reach
    return j


ACC = ["accepted", "rejected"]


def step_jobs(tier):
    q = [
        J("icmp", "Verif_Step_icmp4_arb", ["accepted-dest", "rejected"], L=28),
        J("icmp", "Verif_Step_icmp4_arb", ["accepted-hop", "accepted-dest", "rejected"], L=56),
        J("icmp", "Verif_Step_icmp6_arb", ["accepted-dest", "rejected"], L=48),
        J("icmp", "Verif_Step_icmp6_arb", ["accepted-hop", "accepted-dest", "rejected"], L=96),
        J("udp", "Verif_Step_udp4_arb", ["accepted-hop", "accepted-dest", "rejected"], L=56, loosen=0),
        J("udp", "Verif_Step_udp4_arb", ["accepted-hop", "accepted-dest", "rejected"], L=56, loosen=1),
        J("udp", "Verif_Step_udp6_arb", ["accepted-hop", "accepted-dest", "rejected"], L=96, min=1, loosen=0),
        J("udp", "Verif_Step_udp6_arb", ["accepted-hop", "accepted-dest", "rejected"], L=96, min=254, loosen=1),
        J("tcp", "Verif_Step_tcp_arb", ["accepted-hop", "accepted-dest", "rejected"], L=56, paris=0, loosen=0),
        J("tcp", "Verif_Step_tcp_arb", ["accepted-hop", "accepted-dest", "rejected"], L=56, paris=1, loosen=1),
        J("tcp", "Verif_Step_tcp_arb", ["accepted-dest", "rejected"], L=40, paris=0, loosen=1),
        J("sack", "Verif_Step_sack_arb", ["accepted-icmp", "not-supported", "rejected"], L=56, loosen=1, max=30),
        J("sack", "Verif_Step_sack_arb", ["accepted-icmp", "not-supported", "rejected"], L=56, loosen=0, max=255),
        J("sack", "Verif_Step_sack_layout", ["accepted-sack", "rejected"], loosen=1, max=30, blocks=1),
        # window at the bottom of the TTL range (MinTTL 1..3): tables indexed by TTL vs by TTL-MinTTL differ here
        J("sack", "Verif_Step_sack_arb", ["accepted-icmp", "rejected"], L=56, loosen=1, max=3, W=3),
        J("sack", "Verif_Step_sack_layout", ["accepted-sack", "rejected"], loosen=0, max=3, W=3, blocks=1),
        # the write of a probe takes time: the RTT runs from the hand-over, not from the return of the write
        J("icmp", "Verif_Step_icmp4_arb", ["accepted-hop", "accepted-dest", "rejected"], L=56, writeTakes=1),
        J("udp", "Verif_Step_udp4_arb", ["accepted-hop", "accepted-dest", "rejected"], L=56, loosen=0, writeTakes=1),
        J("tcp", "Verif_Step_tcp_arb", ["accepted-hop", "accepted-dest", "rejected"], L=56, paris=0, loosen=0, writeTakes=1),
        J("sack", "Verif_Step_sack_layout", ["accepted-sack", "rejected"], loosen=1, max=30, blocks=1, writeTakes=1),
        # SACK option whose length byte is arbitrary (partial trailing blocks)
        J("sack", "Verif_Step_sack_layout", ["accepted-sack", "rejected", "not-supported"], loosen=1, max=30, blocks=1, anylen=1),
    ]
    if tier == "quick":
        return q
    t = list(q)
    # every short length (truncations of every header), wider window, option-bearing headers, nesting
    for L in list(range(1, 28)) + [32, 36, 44, 48, 60]:
        t.append(J("icmp", "Verif_Step_icmp4_arb", None, L=L))
        t.append(J("udp", "Verif_Step_udp4_arb", None, L=L, loosen=0))
        t.append(J("tcp", "Verif_Step_tcp_arb", None, L=L, paris=0, loosen=0))
        t.append(J("sack", "Verif_Step_sack_arb", None, L=L, loosen=1, max=30))
    for L in list(range(1, 48, 3)) + [56, 64, 88]:
        t.append(J("icmp", "Verif_Step_icmp6_arb", None, L=L))
        t.append(J("udp", "Verif_Step_udp6_arb", None, L=L, min=2, loosen=0))
    # measured and left out (not finished in 15 minutes each, or a solver unknown): outer IP options (maxIHL=6) at L=60,
    # TCP options at L=48 (maxDOff=6) for the SYN driver, the 3-probe SACK window at MaxTTL 64
    t += [
        J("tcp", "Verif_Step_tcp_arb", None, L=44, maxDOff=6, paris=0, loosen=0),
        J("icmp", "Verif_Step_icmp4_arb", None, L=56, W=3),
        J("udp", "Verif_Step_udp4_arb", None, L=56, W=3, loosen=0),
        J("tcp", "Verif_Step_tcp_arb", None, L=56, W=3, paris=1, loosen=0),
        J("icmp", "Verif_Step_icmp4_arb", None, L=56, ipip=1),
        J("udp", "Verif_Step_udp4_arb", None, L=56, ipip=1, loosen=1),
        J("tcp", "Verif_Step_tcp_arb", None, L=60, ipip=1, paris=0, loosen=0),
        J("icmp", "Verif_Step_icmp4_arb", None, L=60, maxQIHL=6),
        J("udp", "Verif_Step_udp4_arb", None, L=60, maxQIHL=6, loosen=1),
        J("sack", "Verif_Step_sack_arb", None, L=48, maxDOff=6, loosen=1, max=30),
        J("sack", "Verif_Step_sack_layout", ["accepted-sack"], loosen=1, max=30, blocks=2),
        J("sack", "Verif_Step_sack_layout", ["accepted-sack", "not-supported"], loosen=1, max=30, blocks=2, anylen=1),
        J("sack", "Verif_Step_sack_layout", ["accepted-sack"], loosen=0, max=255, blocks=1, ts=1),
        J("udp", "Verif_Step_udp6_arb", None, L=96, min=127, loosen=0, W=3),
    ]
    return t


def c02_jobs(tier):
    jobs = []
    for f in range(5):
        jobs.append(J("icmp", "Verif_C02_icmp4", ["accepted"], form=f))
    for f in range(3):
        jobs.append(J("icmp", "Verif_C02_icmp6", ["accepted"], form=f))
    for f in range(5):
        jobs.append(J("udp", "Verif_C02_udp4", ["accepted"], form=f, loosen=f % 2))
    for f in range(3):
        jobs.append(J("udp", "Verif_C02_udp6", ["accepted"], form=f, min=[1, 128, 254][f], loosen=f % 2))
    for f in range(8):
        jobs.append(J("tcp", "Verif_C02_tcp", ["accepted"], form=f, paris=f % 2, loosen=(f // 2) % 2))
    for f in range(7):
        jobs.append(J("sack", "Verif_C02_sack", ["accepted"], form=f, max=[30, 255][f % 2], loosen=1, tsopt=f % 2))
    for f in range(4):
        jobs.append(J("sack", "Verif_C02_sack", ["accepted"], form=f, max=30, loosen=0))
    if tier == "thorough":
        for f in range(5):
            jobs.append(J("udp", "Verif_C02_udp4", ["accepted"], form=f, loosen=1 - f % 2, W=3))
            jobs.append(J("icmp", "Verif_C02_icmp4", ["accepted"], form=f, W=3, payload=40))
        for f in range(8):
            jobs.append(J("tcp", "Verif_C02_tcp", ["accepted"], form=f, paris=1 - f % 2, loosen=1 - (f // 2) % 2, W=3))
        for f in range(7):
            jobs.append(J("sack", "Verif_C02_sack", ["accepted"], form=f, max=[255, 30][f % 2], loosen=0, tsopt=1 - f % 2, W=3))
        for f in range(3):
            jobs.append(J("udp", "Verif_C02_udp6", ["accepted"], form=f, min=[200, 2, 60][f], loosen=1 - f % 2, W=3))
            jobs.append(J("icmp", "Verif_C02_icmp6", ["accepted"], form=f, W=3, payload=24))
    return jobs


SPECS = {}


def spec(prop, labels, quick, thorough, bounds, outside, assumptions=None, models=None):
    SPECS[prop] = {
        "property": prop,
        "labels": labels,
        "tiers": {"quick": {"jobs": quick}, "thorough": {"jobs": thorough}},
        "assumptions": COMMON_ASSUME + (assumptions or []),
        "bounds": bounds,
        "outside_bounds": outside,
        "models_used": models or MODELS,
    }


spec("C01", ["C01/", "send/", "setup/"], step_jobs("quick"), step_jobs("thorough"), STEP_BOUNDS, STEP_OUTSIDE,
     ["Paris-mode sequence numbers of two probes differ (the property allows 32-bit random collisions)",
      "at least one probe has been sent before the first receive (the engines guarantee it; checked in C03/C07)"])
spec("C04", ["C04/"], step_jobs("quick"), step_jobs("thorough"), STEP_BOUNDS, STEP_OUTSIDE)
spec("C09", ["C09/", "panic"], step_jobs("quick"), step_jobs("thorough"), STEP_BOUNDS,
     STEP_OUTSIDE + ["random / coverage-guided generation beyond the bound (a different technique; not substituted)"])
spec("C02", ["C02/", "send/", "setup/"], c02_jobs("quick"), c02_jobs("thorough"),
     {"window": STEP_BOUNDS["window"],
      "catalogue": "time-exceeded with 28-byte quote / full quote / 128-byte padded quote + 8-byte extension / outer header with 4 option bytes; rewritten quoted TOS, TTL, header checksum; ICMP unused bytes, outer TOS/ID/TTL/checksum/DF symbolic; destination-unreachable with every code (UDP); echo reply with symbolic payload; SYN-ACK with 20 option bytes / none, RST, RST-ACK; duplicate ACK with 1-3 SACK blocks at any position, with and without timestamps, every initial sequence number",
      "relaxed": "quoted source address and port replaced by fresh symbols when LoosenICMPSrc is set"},
     ["reply forms outside the catalogue", "timing (reply inside the listening window) is decided in C07/C08; filters in C12"])


# ---- C05: RTT fidelity ----
# "never measured against a different probe's send time" presupposes that the reply is credited to the probe it answers:
# the attribution obligation C01/genuine is evaluated under C05 as well
spec("C05", ["C05/", "C01/genuine"], step_jobs("quick") + [
        J("traceroute", "Verif_C20_e2e", ["end"], protocol="udp", method=""),
        J("common", "Verif_C05_ms_zero", ["end"], bits=36, solver="cvc5"),
     ], step_jobs("thorough") + [
        J("traceroute", "Verif_C20_e2e", ["end"], protocol="tcp", method="sack"),
        J("common", "Verif_C05_ms_zero", ["end"], bits=40, solver="cvc5"),
     ],
     dict(STEP_BOUNDS, clock="virtual clock: arbitrary non-negative gaps (32-bit ns each) between sends and before the reply; computation takes no time",
          ms="ConvertDurationToMs: durations below 2^36 ns (quick) / 2^40 ns (thorough) for sign and zero; monotonicity is NOT decided: the harness exists (common.Verif_C05_ms) but at 2^24 ns cvc5 and both z3 versions answer unknown after 120-480 s (64-bit division by 10^9 followed by IEEE division is beyond all three solvers at wider ranges)"),
     STEP_OUTSIDE + ["real-clock jitter and scheduling delay (the model clock makes 'within one poll interval' exact)", "monotonicity of the ms conversion beyond the stated range"])

# ---- C06: probe emission ----
def c06_jobs(tier):
    j = [
        J("icmp", "Verif_C06_icmp", ["end"]), J("icmp", "Verif_C06_icmp", ["end"], v6=1),
        J("udp", "Verif_C06_udp", ["end"]), J("udp", "Verif_C06_udp", ["end"], v6=1, min=1), J("udp", "Verif_C06_udp", ["end"], v6=1, min=254),
        J("tcp", "Verif_C06_tcp", ["end"]), J("tcp", "Verif_C06_tcp", ["end"], paris=1),
        J("sack", "Verif_C06_sack", ["end"], max=255), J("sack", "Verif_C06_sack", ["end"], max=30, ts=1),
    ]
    if tier == "thorough":
        j += [J("icmp", "Verif_C06_icmp", ["end"], W=4), J("icmp", "Verif_C06_icmp", ["end"], v6=1, W=4),
              J("udp", "Verif_C06_udp", ["end"], W=4), J("tcp", "Verif_C06_tcp", ["end"], W=4), J("tcp", "Verif_C06_tcp", ["end"], paris=1, W=3),
              J("sack", "Verif_C06_sack", ["end"], max=255, W=4, ts=1), J("sack", "Verif_C06_sack", ["end"], max=64, W=4)]
        for m in [2, 3, 63, 64, 127, 128, 250]:
            j.append(J("udp", "Verif_C06_udp", ["end"], v6=1, min=m, W=3))
    return j
spec("C06", ["C06/", "send/", "setup/"], c06_jobs("quick"), c06_jobs("thorough"),
     {"window": STEP_BOUNDS["window"], "ttl": "first TTL symbolic over 1..255 (UDP/IPv6: the listed first TTLs, its payload length depends on the TTL)",
      "identifier bases": "echo id, IP-ID base, initial sequence/ack numbers, timestamps: every value",
      "scope": "part (a)+(b) of DESIGN 5 C06: bytes handed to Sink.WriteTo and their destination; identifier uniqueness between the probes of a window"},
     ["pacing, ordering and 'none after the destination answered' (engine level) are decided under C07/C03 harnesses, see DESIGN", "IP options on probes (none are generated)",
      "the UDP rule that a computed zero checksum is sent as 0xffff (library behaviour, one configuration in 65536)"])

# ---- C03 (clip/ToHops part), C11 (allocators), C16, C17, C19, C20 ----
spec("C03", ["C03/"], [J("common", "Verif_C03_clip", ["end"], max=5)], [J("common", "Verif_C03_clip", ["end"], max=8)] + [J("common", "Verif_C03_clip", ["end"], max=m, minAt=m - 3) for m in (4, 128, 255)],
     {"table": "result table of MaxTTL+1 slots, MaxTTL <= 5 (quick) / 8 (thorough) with MinTTL symbolic, plus windows of 4 slots ending at 4, 128, 255; every occupancy / destination pattern"},
     ["the engines filling the table (C07 harnesses)", "longer tables"])
spec("C11", ["C11/"], [J("packets", "Verif_C11_alloc", ["end"]), J("icmp", "Verif_C11_echoid", ["end"])], [J("packets", "Verif_C11_alloc", ["end"]), J("icmp", "Verif_C11_echoid", ["end"])],
     {"allocations": "3 consecutive allocations of arbitrary sizes from an arbitrary 32-bit counter state (wrap-around of the counter and of the 16-bit identifier included)"},
     ["more than 65535 live identifiers", "atomicity under concurrent callers (C14)"])
spec("C16", ["C16/"], [J("result", "Verif_C16_hops", ["end"], runs=2, hops=2), J("result", "Verif_C16_ids", ["end"]),
                      J("result", "Verif_C16_e2e", ["answered", "none-answered"], n=2, solver="cvc5", query_ms=120000, timeout=900)],
     [J("result", "Verif_C16_hops", ["end"], runs=2, hops=2), J("result", "Verif_C16_hops", ["end"], runs=1, hops=5), J("result", "Verif_C16_ids", ["end"]),
      J("result", "Verif_C16_e2e", ["answered", "none-answered"], n=2, solver="cvc5", query_ms=300000, timeout=3000)],
     {"samples": "RTT samples: n = 2, each any float64 in [0, 1e13]; IEEE-754 exact (n = 3 was run during the build - it exposed the mean-rounding defect on the original code - but on the repaired code, whose clamps add floating-point branches, it does not finish: 2 of its paths in 20 minutes with 7 branch queries unknown at 120 s each; not registered)",
      "documents": "<= 2 runs x <= 2 hops (thorough also 1 run x <= 5 hops; 2 runs x 3 hops does not finish in 10 minutes), each hop empty / 4-byte / 16-byte symbolic address"},
     ["JSON encoding/decoding (encoding/json is reflection driven: not executable symbolically)", "more samples",
      "16-byte base64 injectivity in one query (decided per 3-byte group)"],
     ["uuid.New returns 16 fresh bytes (model)"])
spec("C17", ["C17/"], [J("result", "Verif_C17_redact", ["private", "public"], runs=1, hops=2),
                      J("server", "Verif_C19_query", ["accepted"], url="/traceroute?target=1.2.3.4&skip-private-hops=true", wantTarget="1.2.3.4", wantProtocol="udp", wantMethod="syn", wantSkip=1),
                      J("server", "Verif_C19_query", ["accepted"], url="/traceroute?target=1.2.3.4&skip-private-hops=banana", wantTarget="1.2.3.4", wantProtocol="udp", wantMethod="syn", wantSkip=0),
                      J("server", "Verif_C19_query", ["accepted"], url="/traceroute?target=1.2.3.4&windows-driver=true&reverse-dns=true&ipv6=true&source-public-ip=true", wantTarget="1.2.3.4", wantProtocol="udp", wantMethod="syn", wantSkip=0)],
     [J("result", "Verif_C17_redact", ["private", "public"], runs=1, hops=3)],
     {"documents": "1 run x 2 hops (thorough also 1 run x 3 hops; 2 runs x 2 hops does not finish in 15 minutes); every address byte symbolic (all block boundaries inside); RTT, flags, names symbolic"},
     ["JSON encoding of the redacted document", "cobra flag parsing", "ordering of redaction after enrichment in RunTraceroute (needs the multi-run harness)"])

def c19_jobs(tier):
    jobs = []
    combos = [("udp", "", "udp"), ("icmp", "", "icmp"), ("tcp", "", "syn"), ("tcp", "syn", "syn"), ("tcp", "sack", "sack"), ("tcp", "prefer_sack", "sack")]
    targets = [("10.1.2.3", 0, "10.1.2.3", 33434), ("10.1.2.3:8080", 0, "10.1.2.3", 8080), ("10.1.2.3", 65535, "10.1.2.3", 65535), ("10.1.2.3", 1, "10.1.2.3", 1)]
    for (proto, method, kind) in combos:
        for (t, port, addr, wport) in (targets if tier == "thorough" or proto == "udp" else targets[:2]):
            jobs.append(J("traceroute", "Verif_C19_params", ["accepted", "rejected"], target=t, port=port, protocol=proto, method=method, wantKind=kind, wantPort=wport, wantAddr=addr))
    # values that must be rejected whatever the TTLs
    for (proto, method, t, port) in [("udp", "", "10.1.2.3", 65536), ("udp", "", "10.1.2.3", -1), ("udp", "", "10.1.2.3:0", 0), ("udp", "", "10.1.2.3:65536", 0),
                                      ("sctp", "", "10.1.2.3", 0), ("", "", "10.1.2.3", 0), ("tcp", "bogus", "10.1.2.3", 0), ("tcp", "SYN", "10.1.2.3", 0)]:
        jobs.append(J("traceroute", "Verif_C19_params", ["rejected"], target=t, port=port, protocol=proto, method=method, wantKind="none", wantPort=0, wantAddr="0.0.0.0", mustReject=1))
    jobs.append(J("traceroute", "Verif_C19_params", ["accepted", "rejected"], target="[2001:db8::1]:443", protocol="udp", method="", wantKind="udp", wantPort=443, wantAddr="2001:db8::1"))
    jobs.append(J("traceroute", "Verif_C19_params", ["accepted", "rejected"], target="2001:db8::1", protocol="icmp", method="", wantKind="icmp", wantPort=0, wantAddr="2001:db8::1"))
    jobs.append(J("server", "Verif_C19_query", ["accepted"], url="/traceroute?target=1.2.3.4&max-ttl=300&port=65536&protocol=tcp&tcp-method=prefer_sack", wantTarget="1.2.3.4", wantMaxTTL=300, wantPort=65536, wantProtocol="tcp", wantMethod="prefer_sack"))
    jobs.append(J("server", "Verif_C19_query", ["accepted"], url="/traceroute?target=%5B2001%3Adb8%3A%3A1%5D%3A53&max-ttl=-4", wantTarget="[2001:db8::1]:53", **{"wantMaxTTL": -4}, wantProtocol="udp", wantMethod="syn"))
    jobs.append(J("server", "Verif_C19_query", ["rejected"], url="/traceroute?max-ttl=3", wantErr=1))
    # no crash at the extremes: driver construction + first/last probe
    jobs += [J("sack", "Verif_C06_sack", ["end"], max=255), J("sack", "Verif_C06_sack", ["end"], max=1), J("icmp", "Verif_C06_icmp", ["end"]), J("udp", "Verif_C06_udp", ["end"]), J("tcp", "Verif_C06_tcp", ["end"])]
    # the whole request path (real RunTraceroute incl. its default-port substitution) at the port boundaries
    for proto, meth in (("udp", "syn"), ("tcp", "syn")):
        for port in (-65536, -1, 65536, 70000):
            jobs.append(J("traceroute", "Verif_C19_request", ["rejected"], protocol=proto, method=meth, port=port, no_replay=True, max_preempt=1))
        for port in (0, 1, 443, 65535):
            jobs.append(J("traceroute", "Verif_C19_request", ["accepted"], protocol=proto, method=meth, port=port, no_replay=True, max_preempt=1))
    return jobs
spec("C19", ["C19/", "panic", "send/", "setup/"], c19_jobs("quick"), c19_jobs("thorough"),
     {"ttl bounds": "MinTTL and MaxTTL unconstrained 64-bit integers (negative, 0, 256, 65536+k all inside)", "ports": "-1, 0 (default), 1, 8080, 65535, 65536 and literal :0 / :65536; through the real RunTraceroute: -65536, -1, 0, 1, 443, 65535, 65536, 70000",
      "protocols/methods": "udp, icmp, tcp x {'', syn, sack, prefer_sack}; unknown protocol and method strings", "targets": "IPv4 and IPv6 literals, bracketed, with and without port",
      "boundary": "the four protocol runners are observed at their entry (seam): the configuration object they receive is compared with the request"},
     ["DNS names as targets", "cobra flag parsing", "what happens below the runner entry is covered by the driver harnesses (C06/C09) and TracerouteParams.validate"],
     ["seams (harness/seams.json): one-line prologues inserted in memory into RunICMPTraceroute, (*UDPv4).Traceroute, (*TCPv4).Traceroute, RunSackTraceroute"])
spec("C20", ["C20/"], [J("traceroute", "Verif_C20_fallback", ["end"], method=m) for m in ("syn", "", "sack", "syn_socket", "bogus")] +
     [J("traceroute", "Verif_C20_fallback", ["prefer-sack-ok", "prefer-fallback", "prefer-fatal"], method="prefer_sack")] +
     [J("traceroute", "Verif_C20_e2e", ["end"], protocol="tcp", method=m) for m in ("sack", "prefer_sack", "syn")] + [J("traceroute", "Verif_C20_e2e", ["end"], protocol="udp", method="sack")] +
     [J("sack", "Verif_Step_sack_arb", ["not-supported"], L=40, max=30, loosen=1, c20=1), J("sack", "Verif_C20_handshake", ["established", "not-supported"], max=30),
      J("sack", "Verif_C20_handshake", ["established", "not-supported"], max=30, slots=4)],
     [J("traceroute", "Verif_C20_fallback", ["end"], method=m) for m in ("syn", "", "sack", "syn_socket", "bogus", "prefer_sack")] +
     [J("traceroute", "Verif_C20_e2e", ["end"], protocol=p, method=m) for p in ("tcp", "udp", "icmp") for m in ("sack", "prefer_sack", "syn", "")] +
     [J("sack", "Verif_Step_sack_arb", ["not-supported"], L=40, max=30, loosen=1, c20=1), J("sack", "Verif_Step_sack_arb", ["not-supported"], L=44, max=255, loosen=0, c20=1, maxDOff=6, tcponly=1),
      J("sack", "Verif_C20_handshake", ["established", "not-supported"], max=30), J("sack", "Verif_C20_handshake", ["established", "not-supported"], max=255, noise=1),
      J("sack", "Verif_C20_handshake", ["established", "not-supported"], max=30, slots=4), J("sack", "Verif_C20_handshake", ["established", "not-supported"], max=30, slots=5)],
     {"error chains": "depth <= 3; each level fmt.Errorf %w / errors.Join / custom Unwrap type / fmt.Errorf %v (chain lost); NotSupportedError at the leaf or absent",
      "scope": "parts (a) and (d) of DESIGN 5 C20: the policy function with recording closures, and the e2e probe's method choice; the real matcher (ACK without SACK blocks) and the real ReadHandshake",
      "handshake": "SYN-ACK option layouts: the fixed Linux layout with/without SACK-permitted and timestamps, and free layouts of 4 (thorough 5) option slots, each NOP / MSS / window scale / SACK-permitted / timestamps in any order (Windows and BSD layouts with padding before SACK-permitted are instances)"},
     ["dial failure => NotSupportedError and 'method syn never dials' are decided in C10's entry-point jobs (labels C20/...)"])


# ---- engine-level harnesses (model driver, real TracerouteParallel/Serial, all schedules) ----
def E(harness, reach, timeout=900, **kw):
    return J("common", harness, reach, timeout=timeout, no_replay=True, **kw)

ENGINE_BOUNDS = {
    "driver": "model TracerouteDriver: ReceiveProbe takes a symbolic time in [0, poll] and returns per call a symbolic choice of nothing / a reply (destination or not) to any probe already sent; SendProbe takes no time",
    "window": "W TTLs (see job params), timeout = timeoutPolls x 100 ms poll, SendDelay 10 ms",
    "replies": "at most `replies` accepted replies per run (duplicates, late replies for earlier TTLs and several destination replies included)",
    "unrelated packets": "jobs with junk=k: up to k polls end at once or mid-interval with a retryable bad-packet error (a burst of unrelated or malformed packets); the termination bounds must hold all the same",
    "schedules": "every interleaving of the engine's goroutines at scheduling points (mutex, channel, context, waitgroup, driver calls, sleeps) unless the job sets max_preempt; virtual discrete-event clock",
}
ENGINE_OUTSIDE = ["longer reply sequences and wider windows", "preemption inside straight-line code (justified by data-race freedom, C14)",
                  "native replay: schedule- and clock-dependent traces are reported from the symbolic run only"]
ENGINE_MODELS = ["goroutines/channels/select on the engine's scheduler", "context model (zzverif.vctx) for context.WithCancel/WithTimeout/WithCancelCause", "sync.Mutex/WaitGroup/Once models",
                 "errgroup executed from its real source", "time.Sleep/time.After on the virtual clock", "model TracerouteDriver (harness/common/engine.go)"]

par_q = [E("Verif_Engine_parallel", ["returned"], W=1, replies=1), E("Verif_Engine_parallel", ["returned"], W=2, replies=1),
         E("Verif_Engine_parallel", ["returned"], W=2, replies=2, waitSet=1), E("Verif_Engine_parallel", ["returned"], W=2, replies=1, min=254, max_preempt=3)]
# thorough-only engine jobs: each measured alone at 20-460 s single-threaded (12 running side by side on the 16 cores);
# W=3 x replies=3 and the unbounded-preemption variants ran past an hour in the first trial and are not registered
par_t = par_q + [E("Verif_Engine_parallel", ["returned"], W=2, replies=2, max_preempt=2), E("Verif_Engine_parallel", ["returned"], W=3, replies=2, waitSet=1, max_preempt=2),
                 E("Verif_Engine_parallel", ["returned"], W=2, replies=3, waitSet=1, timeoutPolls=3, max_preempt=2), E("Verif_Engine_parallel", ["returned"], W=3, replies=1, max_preempt=2)]
ser_q = [E("Verif_Engine_serial", ["returned"], W=2, replies=2), E("Verif_Engine_serial", ["returned"], W=3, replies=2), E("Verif_Engine_serial", ["returned"], W=2, replies=2, min=254),
         # send delay longer than the per-TTL listening window (pacing must not be cut short by the window)
         E("Verif_Engine_serial", ["returned"], W=2, replies=1, sendDelayMs=300, timeoutPolls=1)]
ser_t = ser_q + [E("Verif_Engine_serial", ["returned"], W=3, replies=4, timeoutPolls=3), E("Verif_Engine_serial", ["returned"], W=4, replies=3)]
can_q = [E("Verif_Engine_cancel", ["cancelled-before-return"], W=2, parallel=1, max_preempt=2), E("Verif_Engine_cancel", ["cancelled-before-return"], W=2, parallel=0),
         E("Verif_Engine_cancel", ["cancelled-before-return"], W=2, parallel=0, replies=1)]
can_t = can_q + [E("Verif_Engine_cancel", ["cancelled-before-return"], W=2, parallel=1, replies=1, max_preempt=1), E("Verif_Engine_cancel", ["cancelled-before-return"], W=3, parallel=1, max_preempt=2)]
fail_q = [E("Verif_Engine_fail", ["fault-hit"], W=2, parallel=1, max_preempt=2), E("Verif_Engine_fail", ["fault-hit"], W=2, parallel=0)]
fail_t = fail_q + [E("Verif_Engine_fail", ["fault-hit"], W=3, parallel=1, replies=1, max_preempt=2), E("Verif_Engine_fail", ["fault-hit"], W=3, parallel=0, replies=2)]

spec("C07", ["C07/"], par_q, par_t, ENGINE_BOUNDS, ENGINE_OUTSIDE + ["'randomly beyond the bound' (a different technique; not substituted)"], models=ENGINE_MODELS)
junk_q = [E("Verif_Engine_serial", ["returned"], W=2, replies=1, junk=2), E("Verif_Engine_parallel", ["returned"], W=1, replies=1, junk=2, max_preempt=2)]
junk_t = junk_q + [E("Verif_Engine_serial", ["returned"], W=2, replies=2, junk=3), E("Verif_Engine_parallel", ["returned"], W=2, replies=1, junk=2, max_preempt=2)]
spec("C08", ["C08/"], par_q + ser_q[:2] + can_q + junk_q, par_t + ser_t + can_t + junk_t, ENGINE_BOUNDS,
     ENGINE_OUTSIDE + ["the dial timeout of the SACK connection; the darwin/Windows capture handles themselves (only their shared getReadTimeout is checked)", "floods longer than two packets (each further packet repeats the same loop iteration against the same absolute deadline)"], models=ENGINE_MODELS)
# extend C03 and C06 with the engine parts
SPECS["C03"]["tiers"]["quick"]["jobs"] += par_q[:3] + ser_q
SPECS["C03"]["tiers"]["thorough"]["jobs"] += par_t + ser_t
SPECS["C03"]["bounds"].update(ENGINE_BOUNDS)
SPECS["C03"]["outside_bounds"] = ["longer tables"] + ENGINE_OUTSIDE
SPECS["C03"]["models_used"] = MODELS + ENGINE_MODELS
SPECS["C06"]["tiers"]["quick"]["jobs"] += par_q + ser_q + [E("Verif_Engine_parallel", ["returned"], W=2, replies=1, sendDelayMs=300, timeoutPolls=1, max_preempt=2)]  # the min=254 jobs reach MaxTTL = 255 (uint8 loop counters)
SPECS["C06"]["tiers"]["thorough"]["jobs"] += par_t + ser_t
SPECS["C06"]["bounds"].update(ENGINE_BOUNDS)
SPECS["C06"]["outside_bounds"] = ["IP options on probes (none are generated)", "the UDP rule that a computed zero checksum is sent as 0xffff", "reported endpoints of the entry points (part (d)): not built yet"] + ENGINE_OUTSIDE
SPECS["C06"]["models_used"] = MODELS + ENGINE_MODELS


# ---- C15 multi-query, C18 enrichment/caching/public IP ----
def M(pkg, harness, reach, timeout=900, **kw):
    return J(pkg, harness, reach, timeout=timeout, no_replay=True, **kw)
CONC_BOUNDS = {"schedules": "every interleaving at scheduling points up to max_preempt preemptive context switches (job parameter; -1 = unbounded), sleep-set partial-order reduction over synchronisation objects"}
spec("C15", ["C15/", "C10/"], [M("traceroute", "Verif_C15_multi", ["all-succeeded", "some-failed"], queries=1, e2e=1, max_preempt=3),
                       M("traceroute", "Verif_C15_multi", ["all-succeeded", "some-failed"], queries=2, e2e=1, publicip=0, max_preempt=2),
                       M("traceroute", "Verif_C15_multi", ["all-succeeded", "some-failed"], queries=1, e2e=2, publicip=0, max_preempt=2)],
     [M("traceroute", "Verif_C15_multi", ["all-succeeded", "some-failed"], queries=1, e2e=1, max_preempt=4),
      M("traceroute", "Verif_C15_multi", ["all-succeeded", "some-failed"], queries=2, e2e=1, publicip=0, max_preempt=2),
      M("traceroute", "Verif_C15_multi", ["all-succeeded", "some-failed"], queries=1, e2e=2, publicip=0, max_preempt=2),
      M("traceroute", "Verif_C15_multi", ["all-succeeded", "some-failed"], queries=2, e2e=2, max_preempt=2),
      M("traceroute", "Verif_C15_multi", ["all-succeeded", "some-failed"], queries=3, e2e=1, publicip=0, max_preempt=2)],
     dict(CONC_BOUNDS, counts="TracerouteQueries <= 2/3, E2eQueries <= 2; every failure subset; public-IP fetcher succeeding or failing",
          model="runTracerouteOnceFn (package variable) = model run: success with a distinct id / failure with a distinct error, per call symbolic"),
     ["larger counts (the code is uniform in the count; not proved)", "reverse DNS and redaction ordering inside RunTraceroute"], models=ENGINE_MODELS)
spec("C18", ["C18/", "C08/dns", "C08/http", "C08/publicip", "C10/"],
     [J("cache", "Verif_C18_cache", ["hit", "miss", "end"], ops=3),
      M("result", "Verif_C18_rdns", ["end", "retry-after-failure"], hops=1, max_preempt=2), M("result", "Verif_C18_rdns", ["end"], hops=2, max_preempt=1, maxKind=2, retry=0),
      M("publicip", "Verif_C18_publicip", ["found", "not-found"], providers=1, maxCalls=2),
      M("publicip", "Verif_C18_publicip", ["found", "not-found"], providers=3, maxCalls=3, maxKind=3)],
     [J("cache", "Verif_C18_cache", ["hit", "miss", "end"], ops=3), J("cache", "Verif_C18_cache", ["hit", "miss", "end"], ops=5),
      M("result", "Verif_C18_rdns", ["end", "retry-after-failure"], hops=1, max_preempt=4), M("result", "Verif_C18_rdns", ["end"], hops=2, max_preempt=1, maxKind=2, retry=0),
      M("publicip", "Verif_C18_publicip", ["found", "not-found"], providers=1, maxCalls=2),
      M("publicip", "Verif_C18_publicip", ["found", "not-found"], providers=3, maxCalls=3, maxKind=3),
      M("publicip", "Verif_C18_publicip", ["found", "not-found"], providers=4, maxCalls=4, maxKind=3)],
     dict(CONC_BOUNDS, cache="3-5 GetWithExpiration operations on one key, symbolic gaps, callback success/failure symbolic, over the real go-cache",
          rdns="1-2 hops + destination, symbolic addresses (equal ones included), resolver answer per address symbolic (names / empty / error / the lookup's own deadline expired — the last one only with 1 hop in the quick tier); then a second round with a healthy resolver: stored successes are not re-queried, failed addresses are asked again",
          publicip="1-4 providers, <= 2-4 HTTP calls, response per call: 200 valid / 200 invalid body / any status 400..499 with a well-formed address / any status 500..599 with address / transport error; latency 0, 1 s, 2.5 s; back-off any duration <= 4.5 s"),
     ["real resolver and HTTP stack (contract models only)", "go-cache's janitor goroutine", "net.IP.String modelled as an injective function of the canonical address when the address is symbolic"],
     ["model resolver assigned to reversedns.LookupAddrFn", "(*http.Client).Do redirected to a scripted model client: returns no later than the deadline it was handed",
      "backoff.ExponentialBackOff.NextBackOff = any duration in [0, 4.5 s]", "time.NewTimer/Reset/Stop on the virtual clock"], models=ENGINE_MODELS)


# ---- C12 capture filters ----
c12_q = [J("packets", "Verif_C12_exact", ["dropped"], filter="dropall"), J("packets", "Verif_C12_exact", ["accepted", "dropped"], filter="icmp"),
         J("packets", "Verif_C12_exact", ["accepted", "dropped"], filter="synack"), J("packets", "Verif_C12_exact", ["accepted", "dropped"], filter="tcp"),
         J("icmp", "Verif_C12_nohide_icmp", ["accepted"], L=56), J("icmp", "Verif_C12_nohide_icmp", ["accepted"], L=96, v6=1),
         J("udp", "Verif_C12_nohide_udp", ["accepted"], L=56, loosen=1), J("udp", "Verif_C12_nohide_udp", ["accepted"], L=96, v6=1, min=2),
         J("tcp", "Verif_C12_nohide_tcp", ["accepted"], L=56), J("tcp", "Verif_C12_nohide_tcp", ["accepted"], L=40, paris=1),
         J("sack", "Verif_C12_nohide_sack", ["accepted"], L=56, max=30, loosen=1),
         J("sack", "Verif_C12_nohide_handshake", ["established", "unsupported", "rejected"], L=44, maxDOff=6)]
# measured: the L=60 / maxIHL=6 no-hide jobs (outer IP options) do not finish in 15 minutes each and are not registered
c12_t = c12_q + [J("tcp", "Verif_C12_nohide_tcp", ["accepted"], L=48, maxDOff=7), J("icmp", "Verif_C12_nohide_icmp", ["accepted"], L=28),
                 J("sack", "Verif_C12_nohide_handshake", ["established", "unsupported", "rejected"], L=48, maxDOff=7)]
spec("C12", ["C12/"], c12_q, c12_t,
     {"frames": "Ethernet frame of 110 symbolic bytes with a symbolic captured length 0..110 (covers IHL 15 + TCP header; longer frames differ only in bytes no program reads)",
      "configuration": "filter tuple (both addresses, both ports) symbolic",
      "vm": "the program returned by the real getClassicBPFFilter / GenerateTCP4Filter, disassembled and executed by the real golang.org/x/net/bpf VM under the symbolic executor",
      "no-hidden-reply": "frame = 14 symbolic Ethernet bytes (ethertype of the family) + the arbitrary IP packet of the step harnesses; matcher accepts => filter accepts, with the filter each entry point installs; for the SACK handshake phase: the real ReadHandshake establishes or reports 'unsupported' on an arbitrary 44-48 byte packet (TCP options up to 8 bytes) => the SYN-ACK filter accepts"},
     ["the kernel's cBPF interpreter (trusted to agree with x/net/bpf)", "VLAN-tagged frames", "the SYN-ACK handshake phase of the SACK run against its filter (handshake harness not built yet)",
      "'unfragmented' is read as fragment offset = 0, which is what the property's own expression (jset 0x1fff) denotes"])


# ---- C10 entry points under faults ----
def X(pkg, harness, reach, timeout=900, **kw):
    return J(pkg, harness, reach, timeout=timeout, no_replay=True, **kw)
c10_q = [X("udp", "Verif_C10_udp", ["fault-hit", "no-fault"], max_preempt=2), X("tcp", "Verif_C10_tcp", ["fault-hit", "no-fault"]), X("tcp", "Verif_C10_tcp", ["fault-hit", "no-fault"], paris=1),
         X("icmp", "Verif_C10_icmp", ["fault-hit", "no-fault"], max_preempt=2), X("sack", "Verif_C10_sack", ["fault-hit", "no-fault", "unsupported"], max_preempt=2)] + fail_q + [J("packets", "Verif_C10_setbpf", ["fault-hit", "no-fault"])]
c10_t = [X("udp", "Verif_C10_udp", ["fault-hit", "no-fault"], 3600, max_preempt=4), X("tcp", "Verif_C10_tcp", ["fault-hit", "no-fault"]), X("tcp", "Verif_C10_tcp", ["fault-hit", "no-fault"], paris=1),
         X("icmp", "Verif_C10_icmp", ["fault-hit", "no-fault"], 3600, max_preempt=4), X("sack", "Verif_C10_sack", ["fault-hit", "no-fault", "unsupported"], 3600, max_preempt=4)] + fail_t + [J("packets", "Verif_C10_setbpf", ["fault-hit", "no-fault"])]
spec("C10", ["C10/", "C20/", "C06/reported", "C12/filter-spec", "C08/dial"], c10_q, c10_t,
     dict(CONC_BOUNDS, runs="the four protocol entry points executed whole: (*UDPv4).Traceroute, (*TCPv4).Traceroute, RunICMPTraceroute, runSackTraceroute; MinTTL 1, MaxTTL 2, silent network (every read ends at its deadline), real engines and drivers",
          faults="one fault per run, symbolic choice: local-address lookup, port reservation, handle construction, first/second filter, dial, handshake never captured, SYN-ACK without SACK-permitted, k-th SetReadDeadline / WriteTo / Read (fatal) / zero-length Read for k in 1..2; additionally Close() of the handles may or may not report an error",
          engines="plus the engine-level fault harness over the model driver (k-th SendProbe/ReceiveProbe fails, k <= 3; the failing read reports at once, mid-interval or when the poll interval is over)",
          setbpf="the real SetBPFAndDrain over a model RawConn and model socket calls (syscall.Recvfrom, unix.SetsockoptSockFprog redirected): 0..2 queued packets, one fault among: either attach fails with any errno 1..133, Control fails at its 1st/2nd/3rd use, the drain fails with any errno other than EAGAIN at any receive"),
     ["Windows/Darwin handle types", "faults inside the kernel", "more than one fault per run", "a zero-length read carries no cause: only 'error and no result' is asserted for it; a read deadline is the normal no-packet signal"],
     ["seams (harness/seams.json): NewSourceSink, LocalAddrForHost, reserveLocalPort, dialSackTCP replaced by model handles (zzvnet.Source/Sink/Conn/Listener)"], models=ENGINE_MODELS)

# C06 part (d): the endpoints an entry point reports are the ones its probes carried (same entry-point runs as C10)
ep_labels = ["C06/reported"]
SPECS["C06"]["tiers"]["quick"]["jobs"] += [dict(j, labels=ep_labels, reach=["no-fault"]) for j in c10_q[:5]]
SPECS["C06"]["tiers"]["thorough"]["jobs"] += [dict(j, labels=ep_labels, reach=["no-fault"]) for j in c10_q[:5]]
SPECS["C06"]["outside_bounds"] = [o for o in SPECS["C06"]["outside_bounds"] if "part (d)" not in o]
SPECS["C06"]["bounds"]["reported endpoints"] = "the four protocol entry points run whole over model handles (MinTTL 1, MaxTTL 2, silent network): reported source/destination address and port equal those in every emitted probe"

# ---- C14 data races (happens-before monitor) ----
def R(pkg, harness, reach, timeout=900, **kw):
    return J(pkg, harness, reach, timeout=timeout, no_replay=True, race=1, **kw)
c14_q = [R("sack", "Verif_C14_sack", ["end", "hop-found"], max=2, max_preempt=3), R("icmp", "Verif_C14_icmp", ["end", "hop-found"], max_preempt=3),
         R("udp", "Verif_C14_udp", ["end", "hop-found"], max_preempt=3), R("icmp", "Verif_C14_echoid", ["end"]), R("packets", "Verif_C14_alloc", ["end"]),
         R("traceroute", "Verif_C15_multi", ["all-succeeded", "some-failed"], queries=1, e2e=1, max_preempt=2),
         R("traceroute", "Verif_C15_multi", ["some-failed"], queries=1, e2e=2, publicip=0, max_preempt=2),
         R("result", "Verif_C18_rdns", ["end"], hops=1, max_preempt=2), R("common", "Verif_Engine_parallel", ["returned"], W=2, replies=1, waitSet=1, max_preempt=2)]
c14_t = c14_q + [R("sack", "Verif_C14_sack", ["end", "hop-found"], max=2, replies=2, max_preempt=4), R("icmp", "Verif_C14_icmp", ["end", "hop-found"], replies=2, max_preempt=4),
         R("udp", "Verif_C14_udp", ["end", "hop-found"], replies=2, max_preempt=4),
         R("traceroute", "Verif_C15_multi", ["all-succeeded", "some-failed"], queries=2, e2e=2, max_preempt=2),
         R("result", "Verif_C18_rdns", ["end"], hops=1, max_preempt=4), R("common", "Verif_Engine_parallel", ["returned"], W=2, replies=2, waitSet=1, max_preempt=3),
         R("udp", "Verif_C10_udp", ["no-fault"], max_preempt=3), R("icmp", "Verif_C10_icmp", ["no-fault"], max_preempt=3), R("sack", "Verif_C10_sack", ["no-fault"], max_preempt=3)]
spec("C14", ["C14/", "C11/concurrent"], c14_q, c14_t,
     dict(CONC_BOUNDS, monitor="vector-clock happens-before monitor over every load/store of heap memory and every map access executed by the model goroutines; edges: go statement, unlock->lock, Done->Wait, send/close->receive, atomic operations, Once; two accesses by different goroutines to overlapping cells, one a write, unordered => race (symbolic indices: overlap decided by the solver)",
          scenarios="real TracerouteParallel + each parallel-capable real driver (ICMP, UDP, SACK) with 1-2 replies already queued in the capture source (so a reply can be matched before, while or after its probe is recorded); runTracerouteMulti with concurrent failing/succeeding runs and probes; concurrent reverse-DNS lookups; concurrent allocator calls"),
     ["races inside modelled libraries (sync, context model) and in the harness models", "weak-memory effects beyond happens-before", "preemption bound of the job"],
     ["the synchronisation models record release/acquire edges; objects allocated by the context model are excluded from the monitor"], models=ENGINE_MODELS)

# ---- additions: cross-run exclusion (C11b), state independence after noise (C09), redaction ordering (C17) ----
cross = [J("icmp", "Verif_C11_cross_icmp", ["end"], form=0), J("icmp", "Verif_C11_cross_icmp", ["end"], form=1), J("icmp", "Verif_C11_cross_icmp", ["end"], form=0, v6=1), J("icmp", "Verif_C11_cross_icmp", ["end"], form=1, v6=1),
         J("udp", "Verif_C11_cross_udp", ["end"]), J("udp", "Verif_C11_cross_udp", ["end"], v6=1, min=3),
         J("tcp", "Verif_C11_cross_tcp", ["end"], form=0), J("tcp", "Verif_C11_cross_tcp", ["end"], form=1, paris=1), J("tcp", "Verif_C11_cross_tcp", ["end"], form=2),
         J("sack", "Verif_C11_cross_sack", ["end"], form=0, max=30, loosen=1), J("sack", "Verif_C11_cross_sack", ["end"], form=1, max=30, loosen=1), J("sack", "Verif_C11_cross_sack", ["end"], form=2, max=30, loosen=1),
         J("icmp", "Verif_C14_echoid", ["end"]), J("packets", "Verif_C14_alloc", ["end"])]
SPECS["C11"]["tiers"]["quick"]["jobs"] += cross
SPECS["C11"]["tiers"]["thorough"]["jobs"] += cross + [J("icmp", "Verif_C11_cross_icmp", ["end"], form=0, W=3), J("udp", "Verif_C11_cross_udp", ["end"], W=3), J("tcp", "Verif_C11_cross_tcp", ["end"], form=1, W=3), J("sack", "Verif_C11_cross_sack", ["end"], form=1, max=255, loosen=1, W=3)]
SPECS["C11"]["labels"] = ["C11/", "send/", "setup/"]
SPECS["C11"]["bounds"]["cross-run"] = "two runs of the same protocol to the same target (and port) from the same host, identities differing the way the code relies on: echo identifiers (ICMP), local ports (UDP strict, TCP), local ports and initial sequence numbers more than 255 apart (SACK relaxed); every catalogue reply to a probe of run A is fed to run B's real matcher after B sent the same TTLs"
SPECS["C11"]["outside_bounds"] = ["more than 65535 live identifiers", "mixed-protocol pairs (e.g. a quoted UDP header read as an echo header)", "UDP/TCP with relaxed source checking (the library never enables it for them)", "several processes"]
SPECS["C11"]["assumptions"] = COMMON_ASSUME + ["the OS gives concurrent runs different local ports (held UDP socket / reserved listener / connected socket)", "two kernel-chosen initial sequence numbers differ by more than 255"]
noise_labels = ["C02/", "C09/", "panic", "send/", "setup/"]
noise = [dict(J("udp", "Verif_C02_udp4", ["accepted", "noise-skipped"], form=0, noise=40), labels=noise_labels), dict(J("icmp", "Verif_C02_icmp4", ["accepted", "noise-skipped"], form=4, noise=28), labels=noise_labels),
         dict(J("tcp", "Verif_C02_tcp", ["accepted", "noise-skipped"], form=4, noise=40), labels=noise_labels), dict(J("sack", "Verif_C02_sack", ["accepted", "noise-skipped"], form=4, noise=40, max=30, loosen=1), labels=noise_labels),
         dict(J("icmp", "Verif_C02_icmp6", ["accepted", "noise-skipped"], form=0, noise=48, noise6=1), labels=noise_labels), dict(J("udp", "Verif_C02_udp6", ["accepted", "noise-skipped"], form=0, min=2, noise=48, noise6=1), labels=noise_labels)]
SPECS["C09"]["tiers"]["quick"]["jobs"] += noise
SPECS["C09"]["tiers"]["thorough"]["jobs"] += noise + [dict(J("udp", "Verif_C02_udp4", ["accepted", "noise-skipped"], form=2, noise=56, loosen=1), labels=noise_labels), dict(J("tcp", "Verif_C02_tcp", ["accepted", "noise-skipped"], form=0, noise=56, paris=1), labels=noise_labels),
                                                  dict(J("sack", "Verif_C02_sack", ["accepted", "noise-skipped"], form=0, noise=56, max=255, loosen=0), labels=noise_labels)]
SPECS["C09"]["bounds"]["state independence"] = "one arbitrary non-accepted packet (28-56 bytes) delivered through the real ReceiveProbe before a genuine reply of the catalogue: the genuine reply is still recognised with the same TTL and responder"
# C19 "probes cover precisely the requested TTL range ... including the extremes 1 and 255": the engines at MaxTTL = 255
# (and the window 1..2), judged on the emission obligations
c19_engine_labels = ["C19/", "C06/increasing-from-first-ttl-once-each", "C06/at-most-one-per-ttl", "C03/consecutive-ttl", "C03/never-empty"]
c19_engine = [dict(par_q[3], labels=c19_engine_labels), dict(ser_q[2], labels=c19_engine_labels), dict(par_q[0], labels=c19_engine_labels)]
SPECS["C19"]["tiers"]["quick"]["jobs"] += c19_engine
SPECS["C19"]["tiers"]["thorough"]["jobs"] += c19_engine
SPECS["C19"]["bounds"]["engines at the extremes"] = "the real TracerouteParallel / TracerouteSerial over the model driver with the window 254..255 (MaxTTL = 255) and 1..1: exactly one probe per requested TTL, in order, none outside the range"
hs_q = [J("sack", "Verif_C08_handshake", ["end"], flood=1, L=40), J("sack", "Verif_C08_handshake", ["end"], flood=1, L=56),
        J("packets", "Verif_C08_readtimeout", ["deadline", "no-deadline"])]
hs_t = hs_q + [J("sack", "Verif_C08_handshake", ["end"], 3600, flood=2, L=40)]
SPECS["C08"]["tiers"]["quick"]["jobs"] += hs_q
SPECS["C08"]["tiers"]["thorough"]["jobs"] += hs_t
SPECS["C08"]["bounds"]["handshake flood"] = "the real ReadHandshake over a model capture handle that honours its read deadline: 1 (thorough 2) arbitrary IPv4 packets of 40-56 bytes that are not the awaited SYN-ACK, each arriving at once / halfway to the deadline / not before it; the call returns an error within its 500 ms window"
# C08 "handshake and lookup timeouts included ... stalled HTTP or DNS responders": the enrichment and public-IP jobs of C18
# also run under C08, judged on their C08/ obligations
c08_aux_labels = ["C08/dns", "C08/http", "C08/publicip"]
c08_aux = [dict(j, labels=c08_aux_labels) for j in SPECS["C18"]["tiers"]["quick"]["jobs"] if j["harness"] in ("Verif_C18_rdns", "Verif_C18_publicip")]
SPECS["C08"]["tiers"]["quick"]["jobs"] += [j for j in c08_aux if j["params"].get("hops") != "2"]
SPECS["C08"]["tiers"]["thorough"]["jobs"] += c08_aux
SPECS["C08"]["bounds"]["auxiliary services"] = "reverse-DNS batch with resolvers that answer, fail or stall until the deadline they were handed (the batch takes at most one 5 s lookup timeout); public-IP discovery over the scripted HTTP client (every call carries a deadline, total time bounded by the per-provider budgets)"
# C02 names the capture filters among its code areas: a filter that drops a genuine reply loses the hop just as a
# matcher would. The filter-exactness and no-hidden-reply jobs of C12 therefore also run under C02.
c02_filter_labels = ["C12/filter"]
SPECS["C02"]["tiers"]["quick"]["jobs"] += [dict(j, labels=c02_filter_labels) for j in c12_q]
SPECS["C02"]["tiers"]["thorough"]["jobs"] += [dict(j, labels=c02_filter_labels) for j in c12_t]
SPECS["C02"]["bounds"]["filters"] = "the C12 jobs (program exactness on a symbolic 110-byte frame incl. IHL 5..15; matcher accepts => installed filter accepts) evaluated under C02 as well"
SPECS["C02"]["outside_bounds"] = [o.replace("; filters in C12", "") for o in SPECS["C02"]["outside_bounds"]]
frame_labels = ["C09/", "panic"]
frame_q = [dict(J("packets", "Verif_C09_strip", ["error", "skipped", "payload"], N=24), labels=frame_labels)] + \
          [dict(J("packets", "Verif_C09_frame", ["end"] if f == "none" else ["bad", "nothing"], N=40, frames=1, filter=f, no_replay=True), labels=frame_labels) for f in ("icmp", "udp", "tcp", "synack", "none")]
frame_t = frame_q + [dict(J("packets", "Verif_C09_frame", ["bad", "nothing"], 3600, N=36, frames=2, filter=f, no_replay=True), labels=frame_labels) for f in ("icmp", "udp", "tcp")] + \
          [dict(J("packets", "Verif_C09_frame", ["bad", "nothing", "parsed"], 3600, N=48, frames=1, filter="icmp", no_replay=True), labels=frame_labels)]
SPECS["C09"]["tiers"]["quick"]["jobs"] += frame_q
SPECS["C09"]["tiers"]["thorough"]["jobs"] += frame_t
SPECS["C09"]["bounds"]["frame level"] = "Ethernet frames of 0..40 captured bytes (thorough: two frames of 0..36, one of 0..48), every byte symbolic, delivered through the real afPacketSource.Read -> stripEthernetHeader -> ReadAndParse -> FrameParser.Parse after passing the real classic-BPF program of the installed filter (x/net/bpf VM); (*os.File).Read is the model socket"
SPECS["C17"]["tiers"]["quick"]["jobs"] += [J("traceroute", "Verif_C17_run", ["redacted", "kept"], timeout=900, no_replay=True, max_preempt=1)]
SPECS["C17"]["tiers"]["thorough"]["jobs"] = SPECS["C17"]["tiers"]["quick"]["jobs"] + SPECS["C17"]["tiers"]["thorough"]["jobs"]  # the run at max_preempt=2 does not finish in 15 minutes
SPECS["C17"]["labels"] = ["C17/", "C16/reachable", "C19/request"]
SPECS["C17"]["outside_bounds"] = ["JSON encoding of the redacted document", "cobra flag parsing"]

for prop, s in SPECS.items():
    # thorough jobs get at least an hour each: the deeper bounds were measured at up to ~15 min on an idle
    # machine, and a thorough run may share the machine
    s["tiers"]["thorough"]["jobs"] = [dict(j, timeout_s=max(j.get("timeout_s", 600), 3600)) for j in s["tiers"]["thorough"]["jobs"]]
    with open(os.path.join(HERE, prop + ".json"), "w") as f:
        json.dump(s, f, indent=1)
print("wrote", ", ".join(sorted(SPECS)))
