package tcp

import (
	"time"

	"github.com/DataDog/datadog-traceroute/common"
	V "github.com/DataDog/datadog-traceroute/zzverif"
	N "github.com/DataDog/datadog-traceroute/zzvnet"
)

// Verif_Step_tcp_arb: one real ReceiveProbe over an arbitrary IPv4 packet (C01, C04, C09 for TCP SYN).
func Verif_Step_tcp_arb() {
	L := V.ParamInt("L", 56)
	d, cfg, sink, src, min, m := vSetup()
	P := V.Bytes("P", L)
	N.BoundArb4(P)
	V.ClockAdvance(time.Duration(V.U32("flight"))) // the reply arrives an arbitrary time after the last send
	src.Next = append([]byte(nil), P...)
	resp, err := d.ReceiveProbe(100 * time.Millisecond)
	if err != nil {
		V.Reach("rejected")
		V.Assert(common.CheckProbeRetryable("ReceiveProbe", err), "C09/retryable")
		V.Assert(resp == nil, "C09/no-result-with-error")
		return
	}
	V.Reach("accepted")
	V.Assert(resp != nil, "C09/non-nil")
	ttl := resp.TTL
	V.Assert(V.All(ttl >= min, ttl <= m), "C01/ttl-was-sent")
	V.Assume(V.All(ttl >= min, ttl <= m))
	ihl := V.Concretize(int(P[0] & 0xf))
	qihl := 5
	if L >= ihl*4+8+1 {
		qihl = V.Concretize(int(P[ihl*4+8] & 0xf))
	}
	idx := V.Concretize(int(ttl - min))
	pr := sink.Pkts[idx]
	V.Assert(resp.RTT == time.Duration(V.NowNs()-sink.Times[idx]), "C05/rtt-send-to-receive-same-probe")
	icmpForm := vGenuineICMP(P, ihl, qihl, pr, cfg.LoosenICMPSrc)
	// a direct reply has no per-probe identifier in default mode: it may be credited to the last probe sent, never an earlier one
	directForm := V.All(vDirect(P, ihl, pr), ttl == m)
	V.Assert(V.Any(icmpForm, directForm), "C01/genuine")
	V.Assert(resp.IP == N.Src4(P), "C01/responder")
	V.Assert(resp.IsDest == V.All(P[9] == 6), "C04/dest-iff-direct-reply")
	V.Assert(V.Implies(resp.IsDest, V.BytesEq(P[12:16], pr[16:20])), "C04/dest-from-target")
	V.Assert(resp.RTT >= 0, "C05/rtt-nonneg")
	if resp.IsDest {
		V.Reach("accepted-dest")
	} else {
		V.Reach("accepted-hop")
	}
}
