package tcp

import (
	"time"

	V "github.com/DataDog/datadog-traceroute/zzverif"
	N "github.com/DataDog/datadog-traceroute/zzvnet"
)

// Verif_C11_cross_tcp: two TCP SYN runs A and B to the same target and port from the same host on different local
// ports (each run reserves its port with a listener). Replies to A's probes - time-exceeded quotes, SYN-ACK, RST - are
// not hops of B.
func Verif_C11_cross_tcp() {
	_, cfgA, sinkA, _, min, m := vSetup()
	cfgB := NewTCPv4(cfgA.Target, cfgA.DestPort, min, m, cfgA.Delay, cfgA.Timeout, cfgA.ParisTracerouteMode, false)
	cfgB.srcIP = cfgA.srcIP
	cfgB.srcPort = V.U16("sport-B")
	V.Assume(cfgB.srcPort != cfgA.srcPort)
	sinkB, srcB := &N.Sink{}, &N.Source{}
	dB := newTCPDriver(cfgB, sinkB, srcB)
	for t := min; ; t++ {
		V.Assert(dB.SendProbe(t) == nil, "send/no-error")
		if t == m {
			break
		}
	}
	t := V.U8("t")
	V.Assume(t >= min)
	V.Assume(t <= m)
	pr := sinkA.Pkts[V.Concretize(int(t-min))]
	var P []byte
	switch V.ParamInt("form", 0) {
	case 0:
		P = N.ICMPError4(pr, 11, 0, 28, 0, 0)
	case 1:
		P = vTCPReply(pr, 0x12, nil)
	case 2:
		P = vTCPReply(pr, 0x04, nil)
	}
	srcB.Next = P
	resp, err := dB.ReceiveProbe(100 * time.Millisecond)
	V.Assert(V.All(err != nil, resp == nil), "C11/reply-to-another-run-is-not-a-hop")
	V.Reach("end")
}
