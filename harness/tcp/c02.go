package tcp

import (
	"time"

	V "github.com/DataDog/datadog-traceroute/zzverif"
	N "github.com/DataDog/datadog-traceroute/zzvnet"
)

// vTCPReply builds a TCP segment from the probed endpoint answering probe pr: flags as given, ack = pr.seq+1 when ACK is set,
// everything else (sequence number, window, checksum, urgent, option bytes in the given layout) symbolic.
func vTCPReply(pr []byte, flags uint8, opts []byte) []byte {
	hl := 20 + len(opts)
	p := N.IP4Header(pr[16:20], pr[12:16], 6, hl)
	free := V.Bytes("tcpfree", 10) // seq(4) window(2) checksum(2) urgent(2)
	seq := N.BE32(pr[24:28]) + 1
	ack := []byte{byte(seq >> 24), byte(seq >> 16), byte(seq >> 8), byte(seq)}
	if flags&0x10 == 0 {
		ack = V.Bytes("ackfield", 4) // without ACK the field is meaningless
	}
	p = append(p, pr[22], pr[23], pr[20], pr[21], free[0], free[1], free[2], free[3], ack[0], ack[1], ack[2], ack[3],
		byte(hl/4)<<4, flags, free[4], free[5], free[6], free[7], free[8], free[9])
	p = append(p, opts...)
	return p
}

// Verif_C02_tcp: ICMP time-exceeded forms for probe t are reported as hop t; SYN-ACK / RST / RST-ACK answering the
// last probe sent are reported as the destination at that probe's TTL.
func Verif_C02_tcp() {
	d, cfg, sink, src, min, m := vSetup()
	t := V.U8("t")
	V.Assume(t >= min)
	V.Assume(t <= m)
	form := V.ParamInt("form", 0)
	if form >= 4 {
		V.Assume(t == m) // a direct reply is credited to the most recently sent probe
	}
	pr := sink.Pkts[V.Concretize(int(t-min))]
	var P []byte
	wantDest := form >= 4
	switch form {
	case 0:
		P = N.ICMPError4(pr, 11, 0, 28, 0, 0)
	case 1:
		P = N.ICMPError4(pr, 11, 0, len(pr), 0, 0)
	case 2:
		P = N.ICMPError4(pr, 11, 0, len(pr), 128-len(pr)+8, 0)
	case 3:
		P = N.ICMPError4(pr, 11, 0, 28, 0, 1)
	case 4: // SYN-ACK with MSS, SACK-permitted, timestamps, NOP, window scale (20 option bytes, data symbolic)
		o := V.Bytes("optdata", 13)
		P = vTCPReply(pr, 0x12, []byte{2, 4, o[0], o[1], 4, 2, 8, 10, o[2], o[3], o[4], o[5], o[6], o[7], o[8], o[9], 1, 3, 3, o[10]})
	case 5: // SYN-ACK without options, ECE/CWR bits arbitrary
		P = vTCPReply(pr, 0x12|(V.U8("ecn")&0xc0), nil)
	case 6: // RST (no ACK)
		P = vTCPReply(pr, 0x04, nil)
	case 7: // RST-ACK
		P = vTCPReply(pr, 0x14, nil)
	}
	if cfg.LoosenICMPSrc && form < 4 {
		nat := V.Bytes("nat", 6)
		o := int(P[0]&0xf)*4 + 8
		copy(P[o+12:o+16], nat[0:4])
		copy(P[o+20:o+22], nat[4:6])
	}
	N.Noise(src, d.ReceiveProbe)
	src.Next = P
	resp, err := d.ReceiveProbe(100 * time.Millisecond)
	V.Assert(err == nil, "C02/accepted")
	if err != nil {
		return
	}
	V.Reach("accepted")
	V.Assert(resp.TTL == t, "C02/ttl")
	V.Assert(resp.IP == N.Src4(P), "C02/responder")
	V.Assert(resp.IsDest == wantDest, "C02/dest-flag")
}
