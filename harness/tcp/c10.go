package tcp

import (
	"context"
	"errors"
	"net"
	"net/netip"
	"time"

	"github.com/DataDog/datadog-traceroute/common"
	"github.com/DataDog/datadog-traceroute/packets"
	"github.com/DataDog/datadog-traceroute/sack"
	V "github.com/DataDog/datadog-traceroute/zzverif"
	N "github.com/DataDog/datadog-traceroute/zzvnet"
)

// Verif_C10_tcp: the real (*TCPv4).Traceroute, whole, over model handles with one symbolic fault (see Verif_C10_udp).
// Also C20(c): a SYN run never opens a TCP connection to the target.
func Verif_C10_tcp() {
	src, sink := &N.Source{Timed: true}, &N.Sink{FailErr: N.ErrInjected}
	local := &net.UDPAddr{IP: net.IP{192, 0, 2, 10}, Port: 40007}
	conn := &N.Conn{Local: local}
	lis := &N.Listener{A: &net.TCPAddr{IP: net.IPv4zero, Port: 41000 + V.ParamInt("portoff", 3)}}
	fault := V.U8("fault")
	V.Assume(fault <= 8)
	f := V.Concretize(int(fault))
	k := 1
	if f >= 5 {
		kk := V.U8("k")
		V.Assume(kk >= 1)
		V.Assume(kk <= 2)
		k = V.Concretize(int(kk))
	}
	if V.Bool("closeFails") {
		// closing a handle may itself report an error; the other handles must still be released
		src.CloseErr, sink.CloseErr = N.ErrInjected, N.ErrInjected
	}
	handleMade, listened, dialed := false, false, 0
	sack.VerifHookDial = func(ctx context.Context, p sack.Params) (net.Conn, error) { dialed++; return nil, N.ErrInjected }
	common.VerifHookLocalAddrForHost = func(destIP net.IP, destPort uint16) (*net.UDPAddr, net.Conn, error) {
		if f == 1 {
			return nil, nil, N.ErrInjected
		}
		return local, conn, nil
	}
	VerifHookReserveLocalPort = func() (uint16, net.Listener, error) {
		if f == 2 {
			return 0, nil, N.ErrInjected
		}
		listened = true
		return uint16(lis.A.(*net.TCPAddr).Port), lis, nil
	}
	packets.VerifHookNewSourceSink = func(addr netip.Addr, useDriver bool) (packets.SourceSinkHandle, error) {
		if f == 3 {
			return packets.SourceSinkHandle{}, N.ErrInjected
		}
		handleMade = true
		return packets.SourceSinkHandle{Source: src, Sink: sink}, nil
	}
	switch f {
	case 4:
		src.FilterFailAt = 1
	case 5:
		src.DeadlineFailAt = k
	case 6:
		sink.FailAt = k
	case 7:
		src.ReadFailAt = k
	case 8:
		src.ZeroAt = k
	}
	t := NewTCPv4(net.IPv4(198, 51, 100, 1), 443, 1, 2, 10*time.Millisecond, 200*time.Millisecond, V.ParamInt("paris", 0) == 1, false)
	run, err := t.Traceroute()
	hit := f >= 1 && f <= 4 || (f == 5 && src.Deadlines >= k) || (f == 6 && sink.Writes >= k) || (f == 7 && src.Reads >= k) || (f == 8 && src.Reads >= k)
	if f != 0 && hit {
		V.Reach("fault-hit")
		V.Assert(V.All(err != nil, run == nil), "C10/error-and-no-partial-result")
		if f != 8 {
			V.Assert(errors.Is(err, N.ErrInjected), "C10/cause-preserved")
		}
	} else {
		V.Reach("no-fault")
		V.Assert(V.All(err == nil, run != nil), "C10/success-without-fault")
		if run != nil {
			V.Assert(len(run.Hops) == 2, "C03/silent-network-full-length")
			V.Assert(V.All(run.Source.IPAddress.Equal(local.IP), int(run.Source.Port) == lis.A.(*net.TCPAddr).Port,
				run.Destination.IPAddress.Equal(net.IPv4(198, 51, 100, 1)), run.Destination.Port == 443), "C06/reported-endpoints")
			for _, p := range sink.Pkts {
				V.Assert(V.All(net.IP(p[12:16]).Equal(run.Source.IPAddress), net.IP(p[16:20]).Equal(run.Destination.IPAddress),
					N.BE16(p[20:22]) == run.Source.Port, N.BE16(p[22:24]) == run.Destination.Port), "C06/reported-endpoints-are-on-the-wire")
			}
			if len(src.Filters) > 0 {
				fc := src.Filters[0]
				V.Assert(V.All(fc.FilterType == packets.FilterTypeTCP, fc.FilterConfig.Src.Port() == 443, int(fc.FilterConfig.Dst.Port()) == lis.A.(*net.TCPAddr).Port), "C12/filter-spec-matches-the-run")
			}
		}
	}
	V.Assert(dialed == 0, "C20/syn-never-dials-the-target")
	if f != 1 {
		V.Assert(conn.Closed == 1, "C10/local-addr-socket-closed-once")
	}
	if listened {
		V.Assert(lis.Closed == 1, "C10/reserved-port-closed-once")
	}
	if handleMade {
		V.Assert(V.All(src.Closed == 1, sink.Closed == 1), "C10/handles-closed-exactly-once")
		V.Assert(V.All(!src.UsedAfterClose, !sink.UsedAfterClose), "C10/no-use-after-close")
	}
	V.Assert(V.LiveGoroutines() == 0, "C10/no-goroutine-outlives-the-call")
}
