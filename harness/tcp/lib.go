package tcp

import (
	"time"

	V "github.com/DataDog/datadog-traceroute/zzverif"
	N "github.com/DataDog/datadog-traceroute/zzvnet"
)

// vSetup builds the real TCP SYN driver over a symbolic configuration and sends probes min..m with the real SendProbe.
// Params: W (window), loosen (0/1), paris (0/1).
func vSetup() (d *tcpDriver, cfg *TCPv4, sink *N.Sink, src *N.Source, min, m uint8) {
	W := uint8(V.ParamInt("W", 2))
	local, target := N.Addr4("local").AsSlice(), N.Addr4("target").AsSlice()
	min = V.U8("min")
	max := V.U8("max")
	V.Assume(min >= 1)
	V.Assume(min <= max)
	V.Assume(max-min <= W-1)
	paris := V.ParamInt("paris", 0) == 1
	cfg = NewTCPv4(target, V.U16("dport"), min, max, 10*time.Millisecond, time.Second, paris, false)
	cfg.srcIP = local
	cfg.srcPort = V.U16("sport")
	cfg.LoosenICMPSrc = V.ParamInt("loosen", 0) == 1
	sink, src = &N.Sink{Takes: V.ParamInt("writeTakes", 0) == 1}, &N.Source{}
	d = newTCPDriver(cfg, sink, src)
	if !paris {
		d.basePacketID = V.U16("baseID") // arbitrary allocator state, wrap-around included
	}
	m = V.U8("m")
	V.Assume(m >= min)
	V.Assume(m <= max)
	for t := min; ; t++ {
		err := d.SendProbe(t)
		V.Assert(err == nil, "send/no-error")
		V.ClockAdvance(time.Duration(V.U32("gap")))
		if t == m {
			break
		}
	}
	if paris {
		// Paris mode draws a random 32-bit sequence number per probe; the property holds up to collisions of those
		// (every pair of probes sent, not only the first two: W = 3 in the thorough tier).
		for i := range sink.Pkts {
			for k := i + 1; k < len(sink.Pkts); k++ {
				V.Assume(!V.BytesEq(sink.Pkts[i][24:28], sink.Pkts[k][24:28]))
			}
		}
	}
	return
}

// vGenuineICMP: P is an ICMP error quoting probe pr: destination address and port, IP identification, TCP sequence
// number and - unless relaxed - source address and port.
func vGenuineICMP(p []byte, ihl, qihl int, pr []byte, loosen bool) bool {
	o := ihl * 4
	if qihl < 5 || len(p) < o+8+qihl*4+8 {
		return false // the quote does not hold an IPv4 header plus 8 transport bytes
	}
	q := p[o+8:]
	t := q[qihl*4:]
	base := V.All(p[0]>>4 == 4, p[9] == 1, p[o] == 11,
		V.BytesEq(q[16:20], pr[16:20]), V.BytesEq(t[2:4], pr[22:24]), V.BytesEq(q[4:6], pr[4:6]), V.BytesEq(t[4:8], pr[24:28]))
	if loosen {
		return base
	}
	return V.All(base, V.BytesEq(q[12:16], pr[12:16]), V.BytesEq(t[0:2], pr[20:22]))
}

// vDirect: P is a SYN-ACK, RST or RST-ACK from the probed endpoint to the probing endpoint; when ACK is set it
// acknowledges probe pr's sequence number.
func vDirect(p []byte, ihl int, pr []byte) bool {
	o := ihl * 4
	if len(p) < o+20 {
		return false
	}
	fl := p[o+13]
	syn, rst, ack := fl&0x02 != 0, fl&0x04 != 0, fl&0x10 != 0
	ackNum := N.BE32(p[o+8 : o+12])
	seq := N.BE32(pr[24:28])
	return V.All(p[0]>>4 == 4, p[9] == 6,
		V.Any(V.All(syn, ack), rst),
		V.BytesEq(p[12:16], pr[16:20]), V.BytesEq(p[16:20], pr[12:16]),
		V.BytesEq(p[o:o+2], pr[22:24]), V.BytesEq(p[o+2:o+4], pr[20:22]),
		V.Implies(V.All(ack, V.Any(syn, rst)), ackNum-1 == seq))
}
