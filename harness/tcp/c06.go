package tcp

import (
	V "github.com/DataDog/datadog-traceroute/zzverif"
	N "github.com/DataDog/datadog-traceroute/zzvnet"
)

// Verif_C06_tcp: every SYN probe is a well-formed 40-byte packet with the probed TTL, the run's endpoints, SYN only,
// correct checksums; default mode: identification base+ttl (mod 2^16) and one sequence number for the run; Paris mode:
// identification 41821 and a per-probe sequence number.
func Verif_C06_tcp() {
	d, cfg, sink, _, min, m := vSetup()
	V.Assert(len(sink.Pkts) == int(m-min)+1, "C06/one-probe-per-ttl")
	i := V.U8("i")
	V.Assume(i <= m-min)
	k := V.Concretize(int(i))
	p, ttl := sink.Pkts[k], min+uint8(k)
	V.Assert(V.All(V.BytesEq(sink.Dsts[k].Addr().AsSlice(), cfg.Target), sink.Dsts[k].Port() == cfg.DestPort), "C06/written-to-target")
	V.Assert(N.WellFormed4(p, ttl, 6, cfg.srcIP, cfg.Target), "C06/ip-header")
	V.Assert(V.All(len(p) == 40, N.BE16(p[20:22]) == cfg.srcPort, N.BE16(p[22:24]) == cfg.DestPort,
		N.BE32(p[28:32]) == 0, p[32] == 0x50, p[33] == 0x02, N.BE16(p[34:36]) == 1024), "C06/tcp-header")
	V.Assert(N.L4CsumOK4(p), "C06/l4-checksum")
	if cfg.ParisTracerouteMode {
		V.Assert(N.BE16(p[4:6]) == 41821, "C06/identifier")
	} else {
		V.Assert(V.All(N.BE16(p[4:6]) == d.basePacketID+uint16(ttl), N.BE32(p[24:28]) == d.seqNum), "C06/identifier")
	}
	if m > min {
		a, b := sink.Pkts[0], sink.Pkts[1]
		if cfg.ParisTracerouteMode {
			V.Assert(!V.BytesEq(a[24:28], b[24:28]), "C06/unique-id") // up to random collisions, excluded in vSetup
		} else {
			V.Assert(!V.BytesEq(a[4:6], b[4:6]), "C06/unique-id")
		}
		V.Assert(V.All(V.BytesEq(a[12:24], b[12:24]), sink.Dsts[0] == sink.Dsts[1]), "C06/constant-flow")
	}
	V.Reach("end")
}
