package tcp

import (
	"net/netip"
	"time"

	"github.com/DataDog/datadog-traceroute/common"
	"github.com/DataDog/datadog-traceroute/packets"
	V "github.com/DataDog/datadog-traceroute/zzverif"
	N "github.com/DataDog/datadog-traceroute/zzvnet"
)

// Verif_C12_nohide_tcp: the TCP SYN entry point installs FilterTypeTCP{Src: target:port, Dst: local:port}; every
// frame the TCP matcher accepts (time-exceeded quoting a probe, SYN-ACK/RST on the flow) passes it.
func Verif_C12_nohide_tcp() {
	L := V.ParamInt("L", 56)
	d, cfg, _, src, _, _ := vSetup()
	eth := V.Bytes("eth", 14)
	P := V.Bytes("P", L)
	N.BoundArb4(P)
	V.Assume(V.All(eth[12] == 0x08, eth[13] == 0x00))
	frame := append(append([]byte(nil), eth...), P...)
	src.Next = append([]byte(nil), P...)
	_, err := d.ReceiveProbe(100 * time.Millisecond)
	if err != nil {
		V.Reach("rejected")
		return
	}
	V.Reach("accepted")
	target, _ := common.UnmappedAddrFromSlice(cfg.Target)
	local, _ := common.UnmappedAddrFromSlice(cfg.srcIP)
	spec := packets.PacketFilterSpec{FilterType: packets.FilterTypeTCP, FilterConfig: packets.FilterConfig{
		Src: netip.AddrPortFrom(target, cfg.DestPort), Dst: netip.AddrPortFrom(local, cfg.srcPort)}}
	V.Assert(packets.VerifFilterAccepts(spec, frame), "C12/filter-passes-every-matchable-frame")
}
