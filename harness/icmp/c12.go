package icmp

import (
	"time"

	"github.com/DataDog/datadog-traceroute/packets"
	V "github.com/DataDog/datadog-traceroute/zzverif"
	N "github.com/DataDog/datadog-traceroute/zzvnet"
)

// Verif_C12_nohide_icmp: any frame whose IP payload the real matcher turns into a hop passes the capture filter
// the ICMP entry point installs (FilterTypeICMP), so filtering never changes results.
func Verif_C12_nohide_icmp() {
	v6 := V.ParamInt("v6", 0) == 1
	L := V.ParamInt("L", 56)
	d, _, src, _, _, _, _ := vSetup(v6)
	eth := V.Bytes("eth", 14)
	P := V.Bytes("P", L)
	if v6 {
		N.BoundArb6(P)
		V.Assume(V.All(eth[12] == 0x86, eth[13] == 0xdd)) // the capture source hands over IPv4/IPv6 payloads only
	} else {
		N.BoundArb4(P)
		V.Assume(V.All(eth[12] == 0x08, eth[13] == 0x00))
	}
	frame := append(append([]byte(nil), eth...), P...)
	src.Next = append([]byte(nil), P...)
	_, err := d.ReceiveProbe(100 * time.Millisecond)
	if err != nil {
		V.Reach("rejected")
		return
	}
	V.Reach("accepted")
	V.Assert(packets.VerifFilterAccepts(packets.PacketFilterSpec{FilterType: packets.FilterTypeICMP}, frame), "C12/filter-passes-every-matchable-frame")
}
