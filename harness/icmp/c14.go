package icmp

import (
	"context"

	"github.com/DataDog/datadog-traceroute/common"
	V "github.com/DataDog/datadog-traceroute/zzverif"
	N "github.com/DataDog/datadog-traceroute/zzvnet"
)

// Verif_C14_icmp: the real TracerouteParallel over the real ICMP driver; the capture source already holds replies
// (time-exceeded quotes and echo replies built from the configuration) for TTLs of the window, so a reply can be
// matched before, while or after its probe is recorded. Happens-before monitor on every memory access.
func Verif_C14_icmp() {
	local, target := N.Addr4("local"), N.Addr4("target")
	sink, src := &N.Sink{}, &N.Source{Timed: true}
	d := newICMPDriver(vParams(target, 1, 2), local, sink, src)
	nrep := V.ParamInt("replies", 1)
	for i := 0; i < nrep; i++ {
		t := V.U8("replyTTL")
		V.Assume(t >= 1)
		V.Assume(t <= 2)
		la, ta := local.As4(), target.As4()
		if V.Bool("echoReply") {
			p := N.IP4Header(ta[:], la[:], 1, 9)
			p = append(p, 0, 0, 0, 0, byte(d.echoID>>8), byte(d.echoID), 0, t, t)
			src.Queue = append(src.Queue, p)
		} else {
			quoted := append(N.IP4Header(la[:], ta[:], 1, 9), 8, 0, 0, 0, byte(d.echoID>>8), byte(d.echoID), 0, t)
			src.Queue = append(src.Queue, N.ICMPError4(quoted, 11, 0, 28, 0, 0))
		}
	}
	p := d.params.ParallelParams
	p.TracerouteTimeout = 2 * p.PollFrequency
	res, err := common.TracerouteParallel(context.Background(), d, p)
	V.Assert(err == nil, "C14/run-completes")
	for _, h := range res {
		if h != nil {
			V.Reach("hop-found")
		}
	}
	V.Reach("end")
}

// Verif_C14_echoid: two goroutines allocating echo identifiers at once.
func Verif_C14_echoid() {
	done := make(chan uint16, 2)
	go func() { done <- nextEchoID() }()
	go func() { done <- nextEchoID() }()
	a, b := <-done, <-done
	V.Assert(a != b, "C11/concurrent-echo-ids-distinct")
	V.Reach("end")
}
