package icmp

import (
	"net/netip"
	"os"
	"time"

	"github.com/DataDog/datadog-traceroute/common"
	"github.com/DataDog/datadog-traceroute/packets"
	V "github.com/DataDog/datadog-traceroute/zzverif"
)

// vSink records what the real SendProbe hands to the network: the ledger.
type vSink struct {
	pkts   [][]byte
	dsts   []netip.AddrPort
	closed int
}

func (s *vSink) WriteTo(b []byte, a netip.AddrPort) error {
	s.pkts = append(s.pkts, append([]byte(nil), b...))
	s.dsts = append(s.dsts, a)
	return nil
}
func (s *vSink) Close() error { s.closed++; return nil }

// vSource delivers one scripted packet per Read; nil means "no packet before the deadline".
type vSource struct {
	next   []byte
	reads  int
	closed int
}

func (s *vSource) SetReadDeadline(t time.Time) error { return nil }
func (s *vSource) Read(buf []byte) (int, error) {
	s.reads++
	if s.next == nil {
		return 0, os.ErrDeadlineExceeded
	}
	n := copy(buf, s.next)
	s.next = nil
	return n, nil
}
func (s *vSource) Close() error                                       { s.closed++; return nil }
func (s *vSource) SetPacketFilter(spec packets.PacketFilterSpec) error { return nil }

func vAddr4(tag string) netip.Addr {
	b := V.Bytes(tag, 4)
	return netip.AddrFrom4([4]byte{b[0], b[1], b[2], b[3]})
}

func vAddr6(tag string) netip.Addr {
	b := V.Bytes(tag, 16)
	var a [16]byte
	copy(a[:], b)
	return netip.AddrFrom16(a)
}

func vParams(target netip.Addr, min, max uint8) Params {
	return Params{
		Target: target,
		ParallelParams: common.TracerouteParallelParams{TracerouteParams: common.TracerouteParams{
			MinTTL: min, MaxTTL: max,
			TracerouteTimeout: time.Second, PollFrequency: 100 * time.Millisecond, SendDelay: 10 * time.Millisecond,
		}},
	}
}

// vSetup4 builds a real driver with symbolic configuration and sends probes min..m through the real SendProbe.
// window: max-min <= W-1, position unconstrained in 1..255.
func vSetup(v6 bool) (d *icmpDriver, sink *vSink, src *vSource, local, target netip.Addr, min, m uint8) {
	W := uint8(V.ParamInt("W", 2))
	if v6 {
		local, target = vAddr6("local"), vAddr6("target")
		// an IPv4-mapped address is not a v6 endpoint; the entry point never produces one for a v6 run
		V.Assume(!local.Is4In6())
		V.Assume(!target.Is4In6())
	} else {
		local, target = vAddr4("local"), vAddr4("target")
	}
	min = V.U8("min")
	max := V.U8("max")
	V.Assume(min >= 1)
	V.Assume(min <= max)
	V.Assume(max-min <= W-1)
	sink, src = &vSink{}, &vSource{}
	d = newICMPDriver(vParams(target, min, max), local, sink, src)
	d.echoID = V.U16("echoID") // arbitrary allocator state
	m = V.U8("m")
	V.Assume(m >= min)
	V.Assume(m <= max)
	for t := min; ; t++ {
		err := d.SendProbe(t)
		V.Assert(err == nil, "send/no-error")
		V.ClockAdvance(time.Duration(V.U32("gap")))
		if t == m {
			break
		}
	}
	return
}

func be16(b []byte) uint16 { return uint16(b[0])<<8 | uint16(b[1]) }

// ---- independent oracles, written against the ledger (bytes that really went out) ----

// vGenuine4 : P (IPv4, outer IHL ihl, quoted IHL qihl, both concrete) is a genuine answer to probe pr:
// an ICMP time-exceeded quoting pr's addresses, echo identifier and full 16-bit sequence,
// or an echo reply carrying them, sent by pr's destination.
func vGenuine4(p []byte, ihl, qihl int, pr []byte) bool {
	o := ihl * 4
	if len(p) < o+8 {
		return false
	}
	isICMP := V.All(p[0]>>4 == 4, p[9] == 1)
	// echo reply on the probe's flow
	reply := V.All(isICMP, p[o] == 0, V.BytesEq(p[o+4:o+8], pr[24:28]), V.BytesEq(p[12:16], pr[16:20]))
	if len(p) < o+8+qihl*4+8 {
		return reply
	}
	q := p[o+8:]
	e := q[qihl*4:]
	te := V.All(isICMP, p[o] == 11,
		V.BytesEq(q[12:16], pr[12:16]), V.BytesEq(q[16:20], pr[16:20]),
		V.BytesEq(e[4:8], pr[24:28]))
	return V.Any(reply, te)
}

// vDestForm4: proof of arrival for ICMP = echo reply from the target address.
func vDestForm4(p []byte, ihl int, target netip.Addr) bool {
	o := ihl * 4
	if len(p) < o+8 {
		return false
	}
	t4 := target.As4()
	return V.All(p[9] == 1, p[o] == 0, V.BytesEq(p[12:16], t4[:]))
}

func vOuterSrc4(p []byte) netip.Addr {
	return netip.AddrFrom4([4]byte{p[12], p[13], p[14], p[15]})
}

// vBoundArb4 states the bound on an arbitrary IPv4 packet: header-length nibbles of every IPv4 header the
// decoders can reach (outer, IP-in-IP inner, ICMP-quoted) are <= maxIHL and TCP data-offset nibbles are <= maxDOff.
// Values below 5 stay inside the claim (they are error paths). Without this bound gopacket's option loops
// have one path per tiling of up to 40 option bytes.
func vBoundArb4(P []byte, maxIHL int) {
	L := len(P)
	maxQIHL := V.ParamInt("maxQIHL", 5)
	maxDOff := V.ParamInt("maxDOff", 5)
	ipip := V.ParamInt("ipip", 0)
	if L == 0 {
		return
	}
	V.Assume(P[0]>>4 == 4)
	V.Assume(int(P[0]&0xf) <= maxIHL)
	if L <= 20 {
		return
	}
	base := 0
	if ipip == 1 {
		// IP-in-IP: one level of nesting, inner header bounded the same way
		// (gopacket decodes protocol 4 and protocol 94 as a nested IPv4 header)
		V.Assume(V.Any(P[9] == 4, P[9] == 94))
		V.Assume(int(P[0]&0xf) == 5)
		V.Assume(int(P[20]&0xf) <= maxIHL)
		if L > 29 {
			V.Assume(P[29] != 4)
			V.Assume(P[29] != 94)
		}
		base = 20
	} else {
		V.Assume(P[9] != 4)
		V.Assume(P[9] != 94)
	}
	if maxIHL > 5 {
		return // option-bearing outer headers: positions of inner headers vary; bounded by the job's short length instead
	}
	if L > base+28 {
		V.Assume(int(P[base+28]&0xf) <= maxQIHL)
	}
	if L > base+32 {
		V.Assume(int(P[base+32]>>4) <= maxDOff)
	}
}
