package icmp

import (
	"net/netip"
	"time"

	"github.com/DataDog/datadog-traceroute/common"
	V "github.com/DataDog/datadog-traceroute/zzverif"
	N "github.com/DataDog/datadog-traceroute/zzvnet"
)

func vParams(target netip.Addr, min, max uint8) Params {
	return Params{
		Target: target,
		ParallelParams: common.TracerouteParallelParams{TracerouteParams: common.TracerouteParams{
			MinTTL: min, MaxTTL: max,
			TracerouteTimeout: time.Second, PollFrequency: 100 * time.Millisecond, SendDelay: 10 * time.Millisecond,
		}},
	}
}

// vSetup4 builds a real driver with symbolic configuration and sends probes min..m through the real SendProbe.
// window: max-min <= W-1, position unconstrained in 1..255.
func vSetup(v6 bool) (d *icmpDriver, sink *N.Sink, src *N.Source, local, target netip.Addr, min, m uint8) {
	W := uint8(V.ParamInt("W", 2))
	if v6 {
		local, target = N.Addr6("local"), N.Addr6("target")
		// an IPv4-mapped address is not a v6 endpoint; the entry point never produces one for a v6 run
		V.Assume(!local.Is4In6())
		V.Assume(!target.Is4In6())
	} else {
		local, target = N.Addr4("local"), N.Addr4("target")
	}
	min = V.U8("min")
	max := V.U8("max")
	V.Assume(min >= 1)
	V.Assume(min <= max)
	V.Assume(max-min <= W-1)
	sink, src = &N.Sink{Takes: V.ParamInt("writeTakes", 0) == 1}, &N.Source{}
	d = newICMPDriver(vParams(target, min, max), local, sink, src)
	d.echoID = V.U16("echoID") // arbitrary allocator state
	m = V.U8("m")
	V.Assume(m >= min)
	V.Assume(m <= max)
	for t := min; ; t++ {
		err := d.SendProbe(t)
		V.Assert(err == nil, "send/no-error")
		V.ClockAdvance(time.Duration(V.U32("gap")))
		if t == m {
			break
		}
	}
	return
}


// ---- independent oracles, written against the ledger (bytes that really went out) ----

// vGenuine4 : P (IPv4, outer IHL ihl, quoted IHL qihl, both concrete) is a genuine answer to probe pr:
// an ICMP time-exceeded quoting pr's addresses, echo identifier and full 16-bit sequence,
// or an echo reply carrying them, sent by pr's destination.
func vGenuine4(p []byte, ihl, qihl int, pr []byte) bool {
	o := ihl * 4
	if len(p) < o+8 {
		return false
	}
	isICMP := V.All(p[0]>>4 == 4, p[9] == 1)
	// echo reply on the probe's flow
	reply := V.All(isICMP, p[o] == 0, V.BytesEq(p[o+4:o+8], pr[24:28]), V.BytesEq(p[12:16], pr[16:20]))
	if qihl < 5 || len(p) < o+8+qihl*4+8 {
		return reply
	}
	q := p[o+8:]
	e := q[qihl*4:]
	te := V.All(isICMP, p[o] == 11,
		V.BytesEq(q[12:16], pr[12:16]), V.BytesEq(q[16:20], pr[16:20]),
		V.BytesEq(e[4:8], pr[24:28]))
	return V.Any(reply, te)
}

// vDestForm4: proof of arrival for ICMP = echo reply from the target address.
func vDestForm4(p []byte, ihl int, target netip.Addr) bool {
	o := ihl * 4
	if len(p) < o+8 {
		return false
	}
	t4 := target.As4()
	return V.All(p[9] == 1, p[o] == 0, V.BytesEq(p[12:16], t4[:]))
}


