package icmp

import (
	"time"

	V "github.com/DataDog/datadog-traceroute/zzverif"
	N "github.com/DataDog/datadog-traceroute/zzvnet"
)

// Verif_C11_cross_icmp: two ICMP runs A and B to the same target from the same host with different echo
// identifiers (what nextEchoID guarantees, C11/echo-ids-distinct); every genuine reply to one of A's probes, fed to
// B's real matcher, is not turned into a hop of B - even when B has sent the same TTLs.
func Verif_C11_cross_icmp() {
	v6 := V.ParamInt("v6", 0) == 1
	dA, sinkA, _, local, target, min, m := vSetup(v6)
	sinkB, srcB := &N.Sink{}, &N.Source{}
	dB := newICMPDriver(vParams(target, min, m), local, sinkB, srcB)
	dB.echoID = V.U16("echoID-B")
	V.Assume(dB.echoID != dA.echoID)
	for t := min; ; t++ {
		V.Assert(dB.SendProbe(t) == nil, "send/no-error")
		if t == m {
			break
		}
	}
	t := V.U8("t")
	V.Assume(t >= min)
	V.Assume(t <= m)
	pr := sinkA.Pkts[V.Concretize(int(t-min))]
	var P []byte
	switch V.ParamInt("form", 0) {
	case 0:
		if v6 {
			P = N.ICMPError6(pr, 3, 0, 48)
		} else {
			P = N.ICMPError4(pr, 11, 0, 28, 0, 0)
		}
	case 1: // echo reply from the target
		if v6 {
			free := V.Bytes("outerfree", 5)
			P = append(P, 0x60|(free[0]&0x0f), free[1], free[2], free[3], 0, 9, 58, free[4])
			P = append(P, pr[24:40]...)
			P = append(P, pr[8:24]...)
			P = append(P, 129, 0, 0, 0, pr[44], pr[45], pr[46], pr[47], 0)
		} else {
			P = N.IP4Header(pr[16:20], pr[12:16], 1, 9)
			P = append(P, 0, 0, 0, 0, pr[24], pr[25], pr[26], pr[27], 0)
		}
	}
	srcB.Next = P
	resp, err := dB.ReceiveProbe(100 * time.Millisecond)
	V.Assert(V.All(err != nil, resp == nil), "C11/reply-to-another-run-is-not-a-hop")
	V.Reach("end")
}
