package icmp

import (
	V "github.com/DataDog/datadog-traceroute/zzverif"
	N "github.com/DataDog/datadog-traceroute/zzvnet"
)

// Verif_C06_icmp: every probe the real SendProbe emits is well formed, carries the probed TTL, the run's
// addresses and identifier, a sequence number equal to the TTL (so no two probes share it), correct checksums,
// and is handed to the network for the target address.
func Verif_C06_icmp() {
	v6 := V.ParamInt("v6", 0) == 1
	d, sink, _, local, target, min, m := vSetup(v6)
	V.Assert(len(sink.Pkts) == int(m-min)+1, "C06/one-probe-per-ttl")
	i := V.U8("i")
	V.Assume(i <= m-min)
	k := V.Concretize(int(i))
	p, ttl := sink.Pkts[k], min+uint8(k)
	V.Assert(sink.Dsts[k].Addr() == target, "C06/written-to-target")
	if v6 {
		V.Assert(N.WellFormed6(p, ttl, 58, local.AsSlice(), target.AsSlice()), "C06/ip-header")
		V.Assert(V.All(len(p) == 49, p[40] == 128, p[41] == 0), "C06/echo-request")
		V.Assert(V.All(N.BE16(p[44:46]) == d.echoID, N.BE16(p[46:48]) == uint16(ttl)), "C06/identifier")
		V.Assert(N.L4CsumOK6(p), "C06/l4-checksum")
	} else {
		V.Assert(N.WellFormed4(p, ttl, 1, local.AsSlice(), target.AsSlice()), "C06/ip-header")
		V.Assert(V.All(len(p) == 29, p[20] == 8, p[21] == 0), "C06/echo-request")
		V.Assert(V.All(N.BE16(p[24:26]) == d.echoID, N.BE16(p[26:28]) == uint16(ttl)), "C06/identifier")
		V.Assert(N.L4CsumOK4(p), "C06/l4-checksum")
	}
	// identifier uniqueness inside the run: two different probes carry different sequence numbers
	if m > min {
		a, b := sink.Pkts[0], sink.Pkts[1]
		if v6 {
			V.Assert(N.BE16(a[46:48]) != N.BE16(b[46:48]), "C06/unique-id")
		} else {
			V.Assert(N.BE16(a[26:28]) != N.BE16(b[26:28]), "C06/unique-id")
		}
	}
	V.Reach("end")
}

// Verif_C11_echoid: consecutive echo identifiers from an arbitrary allocator state are pairwise distinct.
func Verif_C11_echoid() {
	curEchoID.Store(V.U32("counter"))
	a, b, c := nextEchoID(), nextEchoID(), nextEchoID()
	V.Assert(V.All(a != b, b != c, a != c), "C11/echo-ids-distinct")
	V.Reach("end")
}
