package icmp

import (
	"time"

	"github.com/DataDog/datadog-traceroute/common"
	V "github.com/DataDog/datadog-traceroute/zzverif"
	N "github.com/DataDog/datadog-traceroute/zzvnet"
)

// Verif_Step_icmp4_arb: one real ReceiveProbe over an arbitrary L-byte IPv4 packet after the real
// SendProbe calls. Decides C01 (attribution), C04 (destination marking) and C09 (no abort) for ICMP/IPv4.
func Verif_Step_icmp4_arb() {
	L := V.ParamInt("L", 56)
	d, sink, src, _, target, min, m := vSetup(false)
	P := V.Bytes("P", L)
	N.BoundArb4(P)
	V.ClockAdvance(time.Duration(V.U32("flight"))) // the reply arrives an arbitrary time after the last send
	src.Next = append([]byte(nil), P...)
	resp, err := d.ReceiveProbe(100 * time.Millisecond)
	if err != nil {
		V.Reach("rejected")
		V.AssertKF(common.CheckProbeRetryable("ReceiveProbe", err), "C09/retryable", "KF-C09-parse-fatal", true)
		V.Assert(resp == nil, "C09/no-result-with-error")
		return
	}
	V.Reach("accepted")
	V.Assert(resp != nil, "C09/non-nil")
	ttl := resp.TTL
	V.Assert(V.All(ttl >= min, ttl <= m), "C01/ttl-was-sent")
	V.Assume(V.All(ttl >= min, ttl <= m))
	ihl := V.Concretize(int(P[0] & 0xf))
	qihl := 5
	if L >= ihl*4+8+1 {
		qihl = V.Concretize(int(P[ihl*4+8] & 0xf))
	}
	idx := V.Concretize(int(ttl - min))
	pr := sink.Pkts[idx]
	V.Assert(resp.RTT == time.Duration(V.NowNs()-sink.Times[idx]), "C05/rtt-send-to-receive-same-probe")
	V.Assert(vGenuine4(P, ihl, qihl, pr), "C01/genuine")
	V.Assert(resp.IP == N.Src4(P), "C01/responder")
	V.Assert(resp.IsDest == vDestForm4(P, ihl, target), "C04/dest-iff-proof")
	V.Assert(resp.RTT >= 0, "C05/rtt-nonneg")
	if resp.IsDest {
		V.Reach("accepted-dest")
	} else {
		V.Reach("accepted-hop")
	}
}

// ---- IPv6 ----

// vGenuine6: P (IPv6, no extension headers) genuinely answers probe pr: time-exceeded (type 3) quoting pr's
// addresses, echo identifier and full 16-bit sequence, or an echo reply (type 129) carrying them from pr's destination.
func vGenuine6(p []byte, pr []byte) bool {
	if len(p) < 48 {
		return false
	}
	is6 := V.All(p[0]>>4 == 6, p[6] == 58)
	reply := V.All(is6, p[40] == 129, V.BytesEq(p[44:48], pr[44:48]), V.BytesEq(p[8:24], pr[24:40]))
	if len(p) < 96 {
		return reply
	}
	q := p[48:]
	te := V.All(is6, p[40] == 3, V.BytesEq(q[8:24], pr[8:24]), V.BytesEq(q[24:40], pr[24:40]), V.BytesEq(q[44:48], pr[44:48]))
	return V.Any(reply, te)
}

func vDestForm6(p []byte, target [16]byte) bool {
	if len(p) < 48 {
		return false
	}
	return V.All(p[6] == 58, p[40] == 129, V.BytesEq(p[8:24], target[:]))
}

// Verif_Step_icmp6_arb: as Verif_Step_icmp4_arb for ICMP over IPv6.
func Verif_Step_icmp6_arb() {
	L := V.ParamInt("L", 96)
	d, sink, src, _, target, min, m := vSetup(true)
	P := V.Bytes("P", L)
	N.BoundArb6(P)
	V.ClockAdvance(time.Duration(V.U32("flight"))) // the reply arrives an arbitrary time after the last send
	src.Next = append([]byte(nil), P...)
	resp, err := d.ReceiveProbe(100 * time.Millisecond)
	if err != nil {
		V.Reach("rejected")
		V.Assert(common.CheckProbeRetryable("ReceiveProbe", err), "C09/retryable")
		V.Assert(resp == nil, "C09/no-result-with-error")
		return
	}
	V.Reach("accepted")
	V.Assert(resp != nil, "C09/non-nil")
	ttl := resp.TTL
	V.Assert(V.All(ttl >= min, ttl <= m), "C01/ttl-was-sent")
	V.Assume(V.All(ttl >= min, ttl <= m))
	idx := V.Concretize(int(ttl - min))
	pr := sink.Pkts[idx]
	V.Assert(resp.RTT == time.Duration(V.NowNs()-sink.Times[idx]), "C05/rtt-send-to-receive-same-probe")
	V.Assert(vGenuine6(P, pr), "C01/genuine")
	V.Assert(resp.IP == N.Src6(P), "C01/responder")
	V.Assert(resp.IsDest == vDestForm6(P, target.As16()), "C04/dest-iff-proof")
	V.Assert(resp.RTT >= 0, "C05/rtt-nonneg")
	if resp.IsDest {
		V.Reach("accepted-dest")
	} else {
		V.Reach("accepted-hop")
	}
}
