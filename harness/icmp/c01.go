package icmp

import (
	"time"

	"github.com/DataDog/datadog-traceroute/common"
	V "github.com/DataDog/datadog-traceroute/zzverif"
)

// Verif_Step_icmp4_arb: one real ReceiveProbe over an arbitrary L-byte IPv4 packet after the real
// SendProbe calls. Decides C01 (attribution), C04 (destination marking) and C09 (no abort) for ICMP/IPv4.
func Verif_Step_icmp4_arb() {
	L := V.ParamInt("L", 56)
	maxIHL := V.ParamInt("maxIHL", 5)
	d, sink, src, _, target, min, m := vSetup(false)
	P := V.Bytes("P", L)
	vBoundArb4(P, maxIHL)
	src.next = append([]byte(nil), P...)
	resp, err := d.ReceiveProbe(100 * time.Millisecond)
	if err != nil {
		V.Reach("rejected")
		V.AssertKF(common.CheckProbeRetryable("ReceiveProbe", err), "C09/retryable", "KF-C09-parse-fatal", true)
		V.Assert(resp == nil, "C09/no-result-with-error")
		return
	}
	V.Reach("accepted")
	V.Assert(resp != nil, "C09/non-nil")
	ttl := resp.TTL
	V.Assert(V.All(ttl >= min, ttl <= m), "C01/ttl-was-sent")
	V.Assume(V.All(ttl >= min, ttl <= m))
	ihl := V.Concretize(int(P[0] & 0xf))
	qihl := 5
	if L >= ihl*4+8+1 {
		qihl = V.Concretize(int(P[ihl*4+8] & 0xf))
	}
	pr := sink.pkts[V.Concretize(int(ttl-min))]
	V.Assert(vGenuine4(P, ihl, qihl, pr), "C01/genuine")
	V.Assert(resp.IP == vOuterSrc4(P), "C01/responder")
	V.Assert(resp.IsDest == vDestForm4(P, ihl, target), "C04/dest-iff-proof")
	V.Assert(resp.RTT >= 0, "C05/rtt-nonneg")
	if resp.IsDest {
		V.Reach("accepted-dest")
	} else {
		V.Reach("accepted-hop")
	}
}
