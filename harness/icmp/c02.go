package icmp

import (
	"time"

	V "github.com/DataDog/datadog-traceroute/zzverif"
	N "github.com/DataDog/datadog-traceroute/zzvnet"
)

// Verif_C02_icmp4: every genuine answer to the probe with TTL t (time-exceeded in the catalogue's quote forms, or the
// target's echo reply with any payload) is reported as hop t with the responder's address.
func Verif_C02_icmp4() {
	d, sink, src, _, _, min, m := vSetup(false)
	t := V.U8("t")
	V.Assume(t >= min)
	V.Assume(t <= m)
	pr := sink.Pkts[V.Concretize(int(t-min))]
	var P []byte
	wantDest := false
	switch V.ParamInt("form", 0) {
	case 0: // time exceeded, 28-byte quote
		P = N.ICMPError4(pr, 11, 0, 28, 0, 0)
	case 1: // full quote
		P = N.ICMPError4(pr, 11, 0, len(pr), 0, 0)
	case 2: // 128-byte padded quote + 8-byte extension object
		P = N.ICMPError4(pr, 11, 0, len(pr), 128-len(pr)+8, 0)
	case 3: // outer header with options
		P = N.ICMPError4(pr, 11, 0, 28, 0, 1)
	case 4: // echo reply from the target echoing identifier, sequence and an arbitrary payload
		pl := V.ParamInt("payload", 9)
		P = N.IP4Header(pr[16:20], pr[12:16], 1, 8+pl)
		cs := V.Bytes("icmpcsum", 2)
		P = append(P, 0, 0, cs[0], cs[1], pr[24], pr[25], pr[26], pr[27])
		P = append(P, V.Bytes("payload", pl)...)
		wantDest = true
	}
	N.Noise(src, d.ReceiveProbe)
	src.Next = P
	resp, err := d.ReceiveProbe(100 * time.Millisecond)
	V.Assert(err == nil, "C02/accepted")
	if err != nil {
		return
	}
	V.Reach("accepted")
	V.Assert(resp.TTL == t, "C02/ttl")
	V.Assert(resp.IP == N.Src4(P), "C02/responder")
	V.Assert(resp.IsDest == wantDest, "C02/dest-flag")
}

// Verif_C02_icmp6: the same over IPv6 (hop-limit-exceeded with the 4 unused bytes arbitrary; echo reply).
func Verif_C02_icmp6() {
	d, sink, src, _, _, min, m := vSetup(true)
	t := V.U8("t")
	V.Assume(t >= min)
	V.Assume(t <= m)
	pr := sink.Pkts[V.Concretize(int(t-min))]
	var P []byte
	wantDest := false
	switch V.ParamInt("form", 0) {
	case 0: // minimal quote: IPv6 header + echo header (48 bytes)
		P = N.ICMPError6(pr, 3, 0, 48)
	case 1: // full quote
		P = N.ICMPError6(pr, 3, 0, len(pr))
	case 2: // echo reply
		pl := V.ParamInt("payload", 1)
		free := V.Bytes("outerfree", 5)
		plen := 8 + pl
		P = append(P, 0x60|(free[0]&0x0f), free[1], free[2], free[3], byte(plen>>8), byte(plen), 58, free[4])
		P = append(P, pr[24:40]...)
		P = append(P, pr[8:24]...)
		cs := V.Bytes("icmpcsum", 2)
		P = append(P, 129, 0, cs[0], cs[1], pr[44], pr[45], pr[46], pr[47])
		P = append(P, V.Bytes("payload", pl)...)
		wantDest = true
	}
	V.Assume(!N.Src6(P).Is4In6())
	N.Noise(src, d.ReceiveProbe)
	src.Next = P
	resp, err := d.ReceiveProbe(100 * time.Millisecond)
	V.Assert(err == nil, "C02/accepted")
	if err != nil {
		return
	}
	V.Reach("accepted")
	V.Assert(resp.TTL == t, "C02/ttl")
	V.Assert(resp.IP == N.Src6(P), "C02/responder")
	V.Assert(resp.IsDest == wantDest, "C02/dest-flag")
}
