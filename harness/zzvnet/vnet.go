// Package zzvnet holds the network-side models shared by the driver harnesses: a recording Sink (the
// ledger of what the real SendProbe put on the wire), a scripted Source, symbolic address helpers, the
// stated bounds on arbitrary packets, and byte-level accessors used by the independent oracles.
package zzvnet

import (
	"errors"
	"net"
	"net/netip"
	"os"
	"time"

	"github.com/DataDog/datadog-traceroute/common"
	"github.com/DataDog/datadog-traceroute/packets"
	V "github.com/DataDog/datadog-traceroute/zzverif"
)

// Sink records every packet handed to the network.
type Sink struct {
	Pkts     [][]byte
	Dsts     []netip.AddrPort
	Times    []int64 // virtual clock at each write
	Closed   int
	Writes   int
	FailAt   int   // 1-based index of the write that fails (0 = never)
	FailErr  error // error returned by the failing write
	UsedAfterClose bool
	CloseErr error // returned by Close (the handle still counts as closed)
	Takes    bool  // the write itself takes a symbolic time (the clock advances before WriteTo returns)
}

func (s *Sink) WriteTo(b []byte, a netip.AddrPort) error {
	s.Writes++
	if s.Closed > 0 {
		s.UsedAfterClose = true
	}
	if s.FailAt != 0 && s.Writes == s.FailAt {
		return s.FailErr
	}
	s.Pkts = append(s.Pkts, append([]byte(nil), b...))
	s.Dsts = append(s.Dsts, a)
	s.Times = append(s.Times, V.NowNs()) // the instant the probe was handed to the network
	if s.Takes {
		V.ClockAdvance(time.Duration(V.U16("writeTakes")))
	}
	return nil
}
func (s *Sink) Close() error { s.Closed++; return s.CloseErr }

// ErrInjected is the foreign cause used by fault injection.
var ErrInjected = errors.New("injected fault")

// Source delivers scripted packets: Next (one shot) then Queue in order; with nothing left a Read reports the
// read deadline (os.ErrDeadlineExceeded), which is the capture layer's "no packet yet".
type Source struct {
	Timed    bool      // a Read with nothing to deliver sleeps (virtual clock) until the read deadline
	Flood    bool      // every queued packet arrives a symbolic time after the Read began; the Read honours its deadline
	deadline time.Time
	Next    []byte
	Queue   [][]byte
	Reads   int
	Closed  int
	Filters []packets.PacketFilterSpec
	Deadlines int
	ReadFailAt int // 1-based index of the Read that fails fatally
	ZeroAt     int // 1-based index of the Read that returns (0, nil)
	FilterFailAt int
	DeadlineFailAt int
	UsedAfterClose bool
	CloseErr error
}

func (s *Source) SetReadDeadline(t time.Time) error {
	s.Deadlines++
	if s.Closed > 0 {
		s.UsedAfterClose = true
	}
	if s.DeadlineFailAt != 0 && s.Deadlines == s.DeadlineFailAt {
		return ErrInjected
	}
	s.deadline = t
	return nil
}

func (s *Source) Read(buf []byte) (int, error) {
	s.Reads++
	if s.Closed > 0 {
		s.UsedAfterClose = true
	}
	if s.ReadFailAt != 0 && s.Reads == s.ReadFailAt {
		return 0, ErrInjected
	}
	if s.ZeroAt != 0 && s.Reads == s.ZeroAt {
		return 0, nil
	}
	var p []byte
	if s.Flood {
		// contract of a capture handle with a read deadline: a Read returns when a packet arrives or at the
		// deadline, whichever is first; past the deadline it fails at once
		left := V.Until(s.deadline)
		if left <= 0 {
			return 0, os.ErrDeadlineExceeded
		}
		if len(s.Queue) == 0 {
			V.Sleep(left)
			return 0, os.ErrDeadlineExceeded
		}
		// arrival of the next packet: at once, halfway to the deadline, or not before the deadline
		c := V.U8("arrival")
		V.Assume(c <= 2)
		gap := []time.Duration{0, left / 2, left}[V.Concretize(int(c))]
		if gap >= left {
			V.Sleep(left)
			return 0, os.ErrDeadlineExceeded
		}
		V.Sleep(gap)
		p, s.Queue = s.Queue[0], s.Queue[1:]
		return copy(buf, p), nil
	}
	if s.Next != nil {
		p, s.Next = s.Next, nil
	} else if len(s.Queue) > 0 {
		p, s.Queue = s.Queue[0], s.Queue[1:]
	} else {
		if s.Timed {
			V.Sleep(V.Until(s.deadline))
		}
		return 0, os.ErrDeadlineExceeded
	}
	return copy(buf, p), nil
}

func (s *Source) Close() error { s.Closed++; return s.CloseErr }

func (s *Source) SetPacketFilter(spec packets.PacketFilterSpec) error {
	if s.Closed > 0 {
		s.UsedAfterClose = true
	}
	s.Filters = append(s.Filters, spec)
	if s.FilterFailAt != 0 && len(s.Filters) == s.FilterFailAt {
		return ErrInjected
	}
	return nil
}

func Addr4(tag string) netip.Addr {
	b := V.Bytes(tag, 4)
	return netip.AddrFrom4([4]byte{b[0], b[1], b[2], b[3]})
}

func Addr6(tag string) netip.Addr {
	b := V.Bytes(tag, 16)
	var a [16]byte
	copy(a[:], b)
	return netip.AddrFrom16(a)
}

func BE16(b []byte) uint16 { return uint16(b[0])<<8 | uint16(b[1]) }
func BE32(b []byte) uint32 {
	return uint32(b[0])<<24 | uint32(b[1])<<16 | uint32(b[2])<<8 | uint32(b[3])
}

func Src4(p []byte) netip.Addr { return netip.AddrFrom4([4]byte{p[12], p[13], p[14], p[15]}) }
func Src6(p []byte) netip.Addr {
	var a [16]byte
	copy(a[:], p[8:24])
	return netip.AddrFrom16(a)
}

// BoundArb4 states the bound on an arbitrary IPv4 packet: header-length nibbles of every IPv4 header the
// decoders can reach (outer, one level of IP-in-IP, ICMP-quoted) are <= maxIHL/maxQIHL and TCP data-offset
// nibbles are <= maxDOff. Values below 5 stay inside the claim (error paths). Without this bound gopacket's
// option loops have one path per tiling of up to 40 option bytes. Params: maxIHL, maxQIHL, maxDOff, ipip.
func BoundArb4(P []byte) {
	L := len(P)
	maxIHL := V.ParamInt("maxIHL", 5)
	maxQIHL := V.ParamInt("maxQIHL", 5)
	maxDOff := V.ParamInt("maxDOff", 5)
	ipip := V.ParamInt("ipip", 0)
	if L == 0 {
		return
	}
	V.Assume(P[0]>>4 == 4)
	V.Assume(int(P[0]&0xf) <= maxIHL)
	if L <= 20 {
		return
	}
	base := 0
	if ipip == 1 {
		// gopacket decodes protocol 4 and protocol 94 as a nested IPv4 header; one level of nesting
		V.Assume(V.Any(P[9] == 4, P[9] == 94))
		V.Assume(int(P[0]&0xf) == 5)
		V.Assume(int(P[20]&0xf) <= maxIHL)
		if L > 29 {
			V.Assume(P[29] != 4)
			V.Assume(P[29] != 94)
		}
		base = 20
	} else {
		V.Assume(P[9] != 4)
		V.Assume(P[9] != 94)
	}
	if maxIHL > 5 {
		return // option-bearing outer headers move the inner positions; those jobs are bounded by their short length
	}
	if L > base+28 {
		V.Assume(V.Implies(P[base+9] == 1, int(P[base+28]&0xf) <= maxQIHL)) // quoted header inside an ICMP error
	}
	if L > base+32 {
		V.Assume(V.Implies(P[base+9] == 6, int(P[base+32]>>4) <= maxDOff)) // TCP data offset
	}
}

// BoundArb6 bounds an arbitrary IPv6 packet: no hop-by-hop header (outer or quoted), no IPv6-in-IPv6 nesting
// (protocol 41) unless param ip6in6=1, TCP data-offset nibble <= maxDOff.
func BoundArb6(P []byte) {
	if len(P) == 0 {
		return
	}
	V.Assume(P[0]>>4 == 6)
	maxDOff := V.ParamInt("maxDOff", 5)
	if len(P) > 6 {
		V.Assume(P[6] != 0)
		V.Assume(P[6] != 41)
	}
	if len(P) > 54 {
		V.Assume(P[54] != 0)
	}
	if len(P) > 52 {
		V.Assume(V.Implies(P[6] == 6, int(P[52]>>4) <= maxDOff))
	}
}

// ICMPError4 builds an ICMP error answering probe pr the way a router does: a fresh outer header from a symbolic
// responder (optWords 32-bit words of NOP/EOL options), ICMP type/code chosen by the caller, 4 unused bytes
// symbolic, then quoteLen bytes of the probe with the fields a device may rewrite (TOS, TTL, header checksum)
// replaced by fresh symbols, then `extra` symbolic bytes (padding + RFC 4884 extension objects).
func ICMPError4(pr []byte, icmpType, icmpCode uint8, quoteLen, extra, optWords int) []byte {
	resp := V.Bytes("responder", 4)
	free := V.Bytes("outerfree", 7) // tos, id(2), ttl, checksum(2), flags byte (DF only)
	hl := 20 + 4*optWords
	total := hl + 8 + quoteLen + extra
	p := make([]byte, 0, total)
	p = append(p, byte(0x40|(hl/4)), free[0], byte(total>>8), byte(total), free[1], free[2], free[6]&0x40, 0, free[3], 1, free[4], free[5])
	p = append(p, resp...)
	p = append(p, pr[12:16]...) // addressed to the prober
	for i := 0; i < optWords; i++ {
		p = append(p, 1, 1, 1, 0) // NOP NOP NOP EOL
	}
	icmpFree := V.Bytes("icmpfree", 6)
	p = append(p, icmpType, icmpCode, icmpFree[0], icmpFree[1], icmpFree[2], icmpFree[3], icmpFree[4], icmpFree[5])
	q := append([]byte(nil), pr[:quoteLen]...)
	qf := V.Bytes("quotedfree", 4)
	q[1] = qf[0]
	q[8] = qf[1]
	q[10] = qf[2]
	q[11] = qf[3]
	p = append(p, q...)
	if extra > 0 {
		p = append(p, V.Bytes("extension", extra)...)
	}
	return p
}

// ICMPError6 builds an ICMPv6 error (type/code) quoting quoteLen bytes of probe pr; hop limit and traffic class of
// the quote rewritten.
func ICMPError6(pr []byte, icmpType, icmpCode uint8, quoteLen int) []byte {
	resp := V.Bytes("responder", 16)
	free := V.Bytes("outerfree", 5) // traffic class/flow (4 bytes, version forced), hop limit
	plen := 8 + quoteLen
	p := make([]byte, 0, 40+plen)
	p = append(p, 0x60|(free[0]&0x0f), free[1], free[2], free[3], byte(plen>>8), byte(plen), 58, free[4])
	p = append(p, resp...)
	p = append(p, pr[8:24]...)
	icmpFree := V.Bytes("icmpfree", 6)
	p = append(p, icmpType, icmpCode, icmpFree[0], icmpFree[1], icmpFree[2], icmpFree[3], icmpFree[4], icmpFree[5])
	q := append([]byte(nil), pr[:quoteLen]...)
	q[7] = V.U8("quotedhop")
	// the IPv6 form of a rewritten TOS: the quoted traffic class (DSCP/ECN re-marking on the way to the router)
	tc := V.U8("quotedtc")
	q[0] = 0x60 | tc>>4
	q[1] = q[1]&0x0f | tc<<4
	p = append(p, q...)
	return p
}

// IP4Header builds a 20-byte IPv4 header for a direct reply (protocol proto) from src to dst with the remaining fields symbolic.
func IP4Header(src, dst []byte, proto uint8, payloadLen int) []byte {
	free := V.Bytes("ipfree", 6) // tos, id(2), ttl, checksum(2)
	total := 20 + payloadLen
	p := make([]byte, 0, total)
	p = append(p, 0x45, free[0], byte(total>>8), byte(total), free[1], free[2], 0x40, 0, free[3], proto, free[4], free[5])
	p = append(p, src...)
	p = append(p, dst...)
	return p
}

// ---- independent well-formedness checker for emitted probes (C06) ----

func fold(sum uint32) uint32 {
	sum = (sum >> 16) + (sum & 0xffff)
	sum = (sum >> 16) + (sum & 0xffff)
	return sum
}

// Sum16 adds b (even or odd length) as big-endian 16-bit words to sum.
func Sum16(sum uint32, b []byte) uint32 {
	for i := 0; i+1 < len(b); i += 2 {
		sum += uint32(b[i]) << 8
		sum += uint32(b[i+1])
	}
	if len(b)%2 == 1 {
		sum += uint32(b[len(b)-1]) << 8
	}
	return sum
}

// CsumIs: the stored checksum equals the one's complement of the folded one's-complement sum of everything else
// covered (RFC 1071). Stating it this way keeps the obligation a comparison of two sums of the same bytes, which
// the engine's order-independent normal form for sums decides without bit-blasting a 40-byte adder chain.
func CsumIs(stored uint16, sumOfOthers uint32) bool { return stored == ^uint16(fold(sumOfOthers)) }

// WellFormed4 checks an emitted IPv4 probe: version/IHL, total length, TTL byte, protocol, addresses, header checksum.
func WellFormed4(p []byte, ttl uint8, proto uint8, src, dst []byte) bool {
	if len(p) < 20 {
		return false
	}
	return V.All(p[0] == 0x45, int(BE16(p[2:4])) == len(p), p[8] == ttl, p[9] == proto,
		V.BytesEq(p[12:16], src), V.BytesEq(p[16:20], dst),
		CsumIs(BE16(p[10:12]), Sum16(Sum16(0, p[0:10]), p[12:20])))
}

// L4CsumOK4 verifies a TCP/UDP/ICMP checksum of an IPv4 packet (pseudo-header included unless ICMP).
func L4CsumOK4(p []byte) bool {
	seg := p[20:]
	co := 16 // offset of the checksum field inside the segment: TCP 16, UDP 6, ICMP 2
	switch p[9] {
	case 1:
		return CsumIs(BE16(seg[2:4]), Sum16(Sum16(0, seg[:2]), seg[4:]))
	case 17:
		co = 6
	}
	sum := Sum16(0, p[12:20])
	sum += uint32(p[9]) + uint32(len(seg))
	return CsumIs(BE16(seg[co:co+2]), Sum16(Sum16(sum, seg[:co]), seg[co+2:]))
}

// WellFormed6 checks an emitted IPv6 probe: version, payload length, hop limit, next header, addresses.
func WellFormed6(p []byte, ttl uint8, next uint8, src, dst []byte) bool {
	if len(p) < 40 {
		return false
	}
	return V.All(p[0]>>4 == 6, int(BE16(p[4:6])) == len(p)-40, p[7] == ttl, p[6] == next,
		V.BytesEq(p[8:24], src), V.BytesEq(p[24:40], dst))
}

// L4CsumOK6 verifies an upper-layer checksum of an IPv6 packet without extension headers.
func L4CsumOK6(p []byte) bool {
	seg := p[40:]
	co := 16
	switch p[6] {
	case 58:
		co = 2
	case 17:
		co = 6
	}
	sum := Sum16(0, p[8:40])
	sum += uint32(p[6]) + uint32(len(seg))
	return CsumIs(BE16(seg[co:co+2]), Sum16(Sum16(sum, seg[:co]), seg[co+2:]))
}


// Conn is a model net.Conn (the UDP socket used to learn the local address, the TCP connection of the SACK run).
type Conn struct {
	Local   net.Addr
	Remote  net.Addr
	Closed  int
	Used    int
	DeadlineSet bool
}

func (c *Conn) Read(b []byte) (int, error)         { c.Used++; return 0, os.ErrDeadlineExceeded }
func (c *Conn) Write(b []byte) (int, error)        { c.Used++; return len(b), nil }
func (c *Conn) Close() error                       { c.Closed++; return nil }
func (c *Conn) LocalAddr() net.Addr                { return c.Local }
func (c *Conn) RemoteAddr() net.Addr               { return c.Remote }
func (c *Conn) SetDeadline(t time.Time) error      { c.DeadlineSet = true; return nil }
func (c *Conn) SetReadDeadline(t time.Time) error  { return nil }
func (c *Conn) SetWriteDeadline(t time.Time) error { return nil }

// Listener is a model net.Listener (the reserved TCP port of the SYN run).
type Listener struct {
	A      net.Addr
	Closed int
}

func (l *Listener) Accept() (net.Conn, error) { return nil, ErrInjected }
func (l *Listener) Close() error              { l.Closed++; return nil }
func (l *Listener) Addr() net.Addr            { return l.A }


// Noise (job param noise=L, noise6=1 for IPv6): before the genuine reply, one arbitrary L-byte packet that the matcher
// does not accept is delivered through the real ReceiveProbe. The harness then goes on with the genuine reply, so
// its obligations also state that skipping garbage leaves the driver able to recognise what follows (C09).
func Noise(src *Source, recv func(time.Duration) (*common.ProbeResponse, error)) {
	L := V.ParamInt("noise", 0)
	if L == 0 {
		return
	}
	nz := V.Bytes("noise", L)
	if V.ParamInt("noise6", 0) == 1 {
		BoundArb6(nz)
	} else {
		BoundArb4(nz)
	}
	src.Next = nz
	resp, err := recv(100 * time.Millisecond)
	V.Assume(err != nil) // noise = a packet that is not itself accepted as a hop
	V.Assume(common.CheckProbeRetryable("ReceiveProbe", err))
	V.Assert(resp == nil, "C09/no-result-with-error")
	V.Reach("noise-skipped")
}
