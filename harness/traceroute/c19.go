package traceroute

import (
	"context"
	"net"
	"time"

	"github.com/DataDog/datadog-traceroute/icmp"
	"github.com/DataDog/datadog-traceroute/result"
	"github.com/DataDog/datadog-traceroute/sack"
	"github.com/DataDog/datadog-traceroute/tcp"
	"github.com/DataDog/datadog-traceroute/udp"
	V "github.com/DataDog/datadog-traceroute/zzverif"
)

// vRecorded is what a protocol runner was handed.
type vRecorded struct {
	kind    string
	calls   int
	min     int
	max     int
	port    int
	target  net.IP
	paris   bool
	timeout time.Duration
}

var vRec vRecorded

func vOKRun() *result.TracerouteRun {
	return &result.TracerouteRun{Hops: []*result.TracerouteHop{{TTL: 1}}}
}

// vInstallRunnerHooks replaces the four protocol runners (seams at their entry) by recorders.
func vInstallRunnerHooks() {
	vRec = vRecorded{}
	udp.VerifHookRun = func(u *udp.UDPv4) (*result.TracerouteRun, error) {
		vRec.kind, vRec.min, vRec.max, vRec.port, vRec.target = "udp", int(u.MinTTL), int(u.MaxTTL), int(u.TargetPort), u.Target
		vRec.calls++
		return vOKRun(), nil
	}
	tcp.VerifHookRun = func(t *tcp.TCPv4) (*result.TracerouteRun, error) {
		vRec.kind, vRec.min, vRec.max, vRec.port, vRec.target, vRec.paris = "syn", int(t.MinTTL), int(t.MaxTTL), int(t.DestPort), t.Target, t.ParisTracerouteMode
		vRec.calls++
		return vOKRun(), nil
	}
	icmp.VerifHookRun = func(ctx context.Context, p icmp.Params) (*result.TracerouteRun, error) {
		vRec.kind, vRec.min, vRec.max, vRec.target = "icmp", int(p.ParallelParams.MinTTL), int(p.ParallelParams.MaxTTL), p.Target.AsSlice()
		vRec.calls++
		return vOKRun(), nil
	}
	sack.VerifHookRun = func(ctx context.Context, p sack.Params) (*result.TracerouteRun, error) {
		vRec.kind, vRec.min, vRec.max, vRec.port, vRec.target = "sack", int(p.ParallelParams.MinTTL), int(p.ParallelParams.MaxTTL), int(p.Target.Port()), p.Target.Addr().AsSlice()
		vRec.calls++
		return vOKRun(), nil
	}
}

// Verif_C19_params: a request is either rejected with an error or handed to the right protocol runner with exactly
// the requested TTL bounds (as integers - a wrapped uint8 differs), address and port. TTL bounds are unconstrained
// 64-bit integers; protocol, method, target literal and port come from the job.
func Verif_C19_params() {
	vInstallRunnerHooks()
	p := TracerouteParams{
		Hostname:  V.Param("target"),
		Port:      V.ParamInt("port", 0),
		Protocol:  V.Param("protocol"),
		MinTTL:    V.Int("minTTL"),
		MaxTTL:    V.Int("maxTTL"),
		Delay:     10,
		Timeout:   time.Second,
		TCPMethod: TCPMethod(V.Param("method")),
		WantV6:    V.ParamInt("v6", 0) == 1,
	}
	destPort := p.Port
	if destPort == 0 {
		destPort = 33434 // RunTraceroute's default
	}
	run, err := runTracerouteOnce(context.Background(), p, destPort)
	if err != nil {
		V.Reach("rejected")
		V.Assert(run == nil, "C19/no-result-with-error")
		V.Assert(vRec.calls == 0, "C19/rejected-before-running")
		return
	}
	V.Reach("accepted")
	V.Assert(V.ParamInt("mustReject", 0) == 0, "C19/unrepresentable-value-rejected")
	V.Assert(vRec.calls == 1, "C19/one-runner")
	V.Assert(V.All(vRec.min == p.MinTTL, vRec.max == p.MaxTTL), "C19/ttl-bounds-honoured-not-wrapped")
	V.Assert(V.All(p.MinTTL >= 1, p.MaxTTL <= 255, p.MinTTL <= p.MaxTTL), "C19/unrepresentable-ttl-rejected")
	wantKind := V.Param("wantKind")
	V.Assert(vRec.kind == wantKind, "C19/protocol-and-method")
	if wantKind != "icmp" {
		V.Assert(vRec.port == V.ParamInt("wantPort", 0), "C19/port")
	}
	V.Assert(vRec.target.Equal(net.ParseIP(V.Param("wantAddr"))), "C19/address")
}

// Verif_C19_request: the whole library entry point (the real RunTraceroute -> runTracerouteMulti -> runTracerouteOnce
// -> parseTarget), one query, no e2e probes, with the port given by the job (boundary values: a symbolic port goes
// through integer-to-string-to-integer conversions and does not finish in 10 minutes): the request is either
// rejected, or the runner was handed exactly that port - the default 33434 standing in for 0 only - and the result
// document names the same port. Negative ports and ports above 65535 are never replaced by something else.
func Verif_C19_request() {
	vInstallRunnerHooks()
	port := V.ParamInt("port", 0)
	p := TracerouteParams{Hostname: "198.51.100.7", Port: port, Protocol: V.Param("protocol"), MinTTL: 1, MaxTTL: 3,
		Delay: 10, Timeout: time.Second, TCPMethod: TCPMethod(V.Param("method")), TracerouteQueries: 1}
	t := Traceroute{publicIPFetcher: &vFetcher{}}
	res, err := t.RunTraceroute(context.Background(), p)
	if err != nil {
		V.Reach("rejected")
		V.Assert(res == nil, "C19/no-result-with-error")
		V.Assert(V.Any(port < 0, port > 65535), "C19/representable-port-not-rejected")
		return
	}
	V.Reach("accepted")
	V.Assert(V.All(port >= 0, port <= 65535), "C19/unrepresentable-value-rejected")
	want := port
	if port == 0 {
		want = 33434
	}
	if vRec.kind != "icmp" {
		V.Assert(vRec.port == want, "C19/port")
	}
	V.Assert(res.Destination.Port == want, "C19/reported-port")
	V.Assert(vRec.calls == 1, "C19/one-runner")
}
