package traceroute

import (
	"context"
	"errors"
	"fmt"
	"net"
	"strconv"
	"time"

	"github.com/DataDog/datadog-traceroute/result"
	V "github.com/DataDog/datadog-traceroute/zzverif"
)

type vFetcher struct {
	fail  bool
	calls int
}

func (f *vFetcher) GetIP(ctx context.Context) (net.IP, error) {
	V.Yield()
	f.calls++
	if f.fail {
		return nil, errors.New("no public IP")
	}
	return net.IPv4(198, 51, 100, 7), nil
}

// Verif_C15_multi: the real runTracerouteMulti with the run function replaced (package variable) by a model that
// succeeds or fails per call; every completion order of the concurrent runs and probes.
func Verif_C15_multi() {
	nq, ne := V.ParamInt("queries", 2), V.ParamInt("e2e", 2)
	old := runTracerouteOnceFn
	defer func() { runTracerouteOnceFn = old }()
	var produced []string // run ids of successful traceroute runs
	var failures []error
	var e2eRTT []float64 // what each successful e2e probe should contribute
	e2eFailed := 0
	calls := 0
	runTracerouteOnceFn = func(ctx context.Context, params TracerouteParams, destinationPort int) (*result.TracerouteRun, error) {
		V.Yield()
		calls++
		isE2e := params.MinTTL == params.MaxTTL
		if V.Bool("fail") {
			e := fmt.Errorf("run %d failed", calls)
			failures = append(failures, e)
			if isE2e {
				e2eFailed++
			}
			V.Yield()
			return nil, e
		}
		run := &result.TracerouteRun{RunID: "run-" + strconv.Itoa(calls), Hops: []*result.TracerouteHop{{TTL: 1}}}
		if isE2e {
			if V.Bool("destAnswered") {
				rtt := V.F64("rtt")
				V.Assume(rtt > 0)
				V.Assume(rtt < 1e9)
				run.Hops = append(run.Hops, &result.TracerouteHop{TTL: params.MaxTTL, RTT: rtt, IsDest: true})
				e2eRTT = append(e2eRTT, rtt)
			} else {
				e2eRTT = append(e2eRTT, 0)
			}
		} else {
			produced = append(produced, run.RunID)
		}
		V.Yield()
		return run, nil
	}
	f := &vFetcher{fail: V.Bool("fetcherFails")}
	collect := V.ParamInt("publicip", 1) == 1
	t := Traceroute{publicIPFetcher: f}
	p := TracerouteParams{Hostname: "192.0.2.1", Protocol: "udp", MinTTL: 1, MaxTTL: 5, Timeout: 100 * time.Millisecond,
		TracerouteQueries: nq, E2eQueries: ne, CollectSourcePublicIP: collect}
	res, err := t.runTracerouteMulti(context.Background(), p, 33434)
	V.Assert(calls == nq+ne, "C15/every-query-ran-once")
	if len(failures) == 0 {
		V.Reach("all-succeeded")
		V.Assert(V.All(err == nil, res != nil), "C15/success-when-all-succeed")
		if res == nil {
			return
		}
		V.Assert(len(res.Traceroute.Runs) == nq, "C15/run-count")
		V.Assert(len(res.E2eProbe.RTTs) == ne, "C15/rtt-count")
		// multiset equality of the runs: each produced id appears exactly once
		for _, id := range produced {
			n := 0
			for i := range res.Traceroute.Runs {
				if res.Traceroute.Runs[i].RunID == id {
					n++
				}
			}
			V.Assert(n == 1, "C15/no-run-lost-or-duplicated")
		}
		// multiset equality of the RTT samples (zeros for unanswered probes)
		for _, want := range e2eRTT {
			a, b := 0, 0
			for _, x := range e2eRTT {
				if x == want {
					a++
				}
			}
			for _, x := range res.E2eProbe.RTTs {
				if x == want {
					b++
				}
			}
			V.Assert(a == b, "C15/rtt-samples-preserved")
		}
		if collect && !f.fail {
			V.Assert(res.Source.PublicIP != "", "C15/public-ip-recorded")
		}
	} else {
		V.Reach("some-failed")
		V.Assert(V.All(res == nil, err != nil), "C15/error-and-no-result-when-any-fails")
		for _, e := range failures {
			V.Assert(errors.Is(err, e), "C15/every-failure-exposed")
		}
	}
	V.Assert(V.LiveGoroutines() == 0, "C10/no-goroutine-outlives-the-call")
}
