package traceroute

import (
	"context"
	"errors"
	"fmt"

	"github.com/DataDog/datadog-traceroute/result"
	"github.com/DataDog/datadog-traceroute/sack"
	V "github.com/DataDog/datadog-traceroute/zzverif"
)

type vWrapper struct{ inner error }

func (w *vWrapper) Error() string { return "wrapped" }
func (w *vWrapper) Unwrap() error { return w.inner }

// vChain builds an error chain of symbolic depth <= 3 around a leaf that is or is not a *sack.NotSupportedError.
// Each level is one of: fmt.Errorf("%w"), errors.Join with another error, a custom Unwrap type, or fmt.Errorf("%v")
// which loses the chain. It returns the error and whether a NotSupportedError is reachable through Unwrap.
func vChain() (error, bool) {
	leafNS := V.Bool("leafIsNotSupported")
	var err error = errors.New("plain failure")
	has := false
	if leafNS {
		err = &sack.NotSupportedError{Err: errors.New("no SACK")}
		has = true
	}
	depth := V.U8("depth")
	V.Assume(depth <= 3)
	d := V.Concretize(int(depth))
	for i := 0; i < d; i++ {
		k := V.U8("wrapKind")
		V.Assume(k <= 3)
		switch V.Concretize(int(k)) {
		case 0:
			err = fmt.Errorf("level: %w", err)
		case 1:
			err = errors.Join(errors.New("sibling"), err)
		case 2:
			err = &vWrapper{inner: err}
		case 3:
			err = fmt.Errorf("flattened: %v", err)
			has = false
		}
	}
	return err, has
}

// Verif_C20_fallback: the real performTCPFallback with the three implementations as recording closures.
func Verif_C20_fallback() {
	method := TCPMethod(V.Param("method"))
	synRun, sackRun, sockRun := &result.TracerouteRun{RunID: "syn"}, &result.TracerouteRun{RunID: "sack"}, &result.TracerouteRun{RunID: "sock"}
	synCalls, sackCalls, sockCalls := 0, 0, 0
	sackFails := V.Bool("sackFails")
	var sackErr error
	hasNS := false
	if sackFails {
		sackErr, hasNS = vChain()
	}
	synFails := V.Bool("synFails")
	synErr := errors.New("syn failure")
	doSyn := func() (*result.TracerouteRun, error) {
		synCalls++
		if synFails {
			return nil, synErr
		}
		return synRun, nil
	}
	doSack := func() (*result.TracerouteRun, error) {
		sackCalls++
		if sackFails {
			return nil, sackErr
		}
		return sackRun, nil
	}
	doSock := func() (*result.TracerouteRun, error) { sockCalls++; return sockRun, nil }
	res, err := performTCPFallback(method, doSyn, doSack, doSock)
	switch method {
	case "syn", "":
		V.Assert(V.All(synCalls == 1, sackCalls == 0, sockCalls == 0), "C20/syn-only-syn")
		V.Assert(V.Implies(!synFails, res == synRun), "C20/syn-result")
	case "sack":
		V.Assert(V.All(sackCalls == 1, synCalls == 0, sockCalls == 0), "C20/sack-never-falls-back")
		if sackFails {
			V.Assert(V.All(res == nil, errors.Is(err, sackErr)), "C20/sack-error-reported")
		} else {
			V.Assert(V.All(res == sackRun, err == nil), "C20/sack-result")
		}
	case "prefer_sack":
		V.Assert(V.All(sackCalls == 1, sockCalls == 0), "C20/prefer-tries-sack-once")
		if !sackFails {
			V.Reach("prefer-sack-ok")
			V.Assert(V.All(res == sackRun, err == nil, synCalls == 0), "C20/prefer-keeps-sack-result")
		} else if hasNS {
			V.Reach("prefer-fallback")
			V.Assert(synCalls == 1, "C20/fallback-when-unsupported")
			V.Assert(V.Implies(!synFails, res == synRun), "C20/fallback-result")
		} else {
			V.Reach("prefer-fatal")
			V.Assert(synCalls == 0, "C20/no-fallback-on-other-failures")
			V.Assert(V.All(res == nil, err != nil, errors.Is(err, sackErr)), "C20/other-failure-reported-not-masked")
		}
	case "syn_socket":
		V.Assert(V.All(sockCalls == 1, synCalls == 0, sackCalls == 0), "C20/socket-only")
	default:
		V.Assert(V.All(err != nil, res == nil, synCalls+sackCalls+sockCalls == 0), "C20/unknown-method-rejected")
	}
	V.Reach("end")
}

// Verif_C20_e2e: end-to-end probes use SYN whatever the method, on a single TTL.
func Verif_C20_e2e() {
	var seen TracerouteParams
	calls := 0
	old := runTracerouteOnceFn
	defer func() { runTracerouteOnceFn = old }()
	rtt := V.F64("rtt")
	hasDest := V.Bool("hasDest")
	runTracerouteOnceFn = func(ctx context.Context, params TracerouteParams, destinationPort int) (*result.TracerouteRun, error) {
		seen = params
		calls++
		run := &result.TracerouteRun{Hops: []*result.TracerouteHop{{TTL: 1, RTT: 7}}}
		if hasDest {
			run.Hops = append(run.Hops, &result.TracerouteHop{TTL: 2, RTT: rtt, IsDest: true})
		}
		return run, nil
	}
	p := TracerouteParams{Protocol: V.Param("protocol"), TCPMethod: TCPMethod(V.Param("method")), MinTTL: 1, MaxTTL: V.Int("maxTTL")}
	got, err := runE2eProbeOnce(context.Background(), p, 80)
	V.Assert(V.All(err == nil, calls == 1), "C20/e2e-one-run")
	V.Assert(V.All(seen.MinTTL == p.MaxTTL, seen.MaxTTL == p.MaxTTL), "C20/e2e-single-ttl")
	if p.Protocol == "tcp" {
		V.Assert(V.Any(seen.TCPMethod == TCPConfigSYN, V.All(p.TCPMethod != TCPConfigSACK, p.TCPMethod != TCPConfigPreferSACK, seen.TCPMethod == p.TCPMethod)), "C20/e2e-uses-syn")
	}
	if hasDest {
		V.Assert(got == rtt || (got != got && rtt != rtt), "C05/e2e-rtt-is-destination-rtt")
	} else {
		V.Assert(got == 0, "C05/e2e-zero-when-unanswered")
	}
	V.Reach("end")
}
