package traceroute

import (
	"context"
	"errors"
	"net"
	"time"

	"github.com/DataDog/datadog-traceroute/cache"
	"github.com/DataDog/datadog-traceroute/result"
	"github.com/DataDog/datadog-traceroute/reversedns"
	V "github.com/DataDog/datadog-traceroute/zzverif"
)

// Verif_C17_run: the real RunTraceroute end to end over a model run function and a model resolver, with reverse DNS
// on and private-hop skipping symbolic: redaction happens after enrichment and normalisation, so with skipping on no
// private hop keeps an address, a name, an RTT, the reachable or destination flag; with skipping off nothing is
// removed; public hops keep their names; protocol, destination and counts are as requested (C15/C19).
func Verif_C17_run() {
	cache.Cache.Flush()
	old := runTracerouteOnceFn
	defer func() { runTracerouteOnceFn = old }()
	oldL := reversedns.LookupAddrFn
	defer func() { reversedns.LookupAddrFn = oldL }()
	reversedns.LookupAddrFn = func(ctx context.Context, addr string) ([]string, error) {
		V.Yield()
		if V.Bool("lookupFails") {
			return nil, errors.New("no PTR")
		}
		return []string{"host.example"}, nil
	}
	a := V.Bytes("hop1", 4)
	runTracerouteOnceFn = func(ctx context.Context, params TracerouteParams, destinationPort int) (*result.TracerouteRun, error) {
		return &result.TracerouteRun{
			Destination: result.TracerouteDestination{IPAddress: net.IPv4(198, 51, 100, 1), Port: uint16(destinationPort)},
			Hops: []*result.TracerouteHop{
				{TTL: 1, IPAddress: net.IP{a[0], a[1], a[2], a[3]}, RTT: 1.5},
				{TTL: 2},
				{TTL: 3, IPAddress: net.IPv4(198, 51, 100, 1), RTT: 9, IsDest: true},
			}}, nil
	}
	skip := V.Bool("skipPrivateHops")
	t := Traceroute{publicIPFetcher: &vFetcher{}}
	p := TracerouteParams{Hostname: "198.51.100.1", Protocol: "udp", MinTTL: 1, MaxTTL: 3, Timeout: 100 * time.Millisecond,
		TracerouteQueries: 1, ReverseDns: true, SkipPrivateHops: skip}
	res, err := t.RunTraceroute(context.Background(), p)
	V.Assert(V.All(err == nil, res != nil), "C15/success-when-all-succeed")
	if res == nil {
		return
	}
	V.Assert(V.All(res.Protocol == "udp", res.Destination.Port == 33434, len(res.Traceroute.Runs) == 1, res.TestRunID != ""), "C19/request-echoed")
	hops := res.Traceroute.Runs[0].Hops
	V.Assert(len(hops) == 3, "C17/hop-count")
	h := hops[0]
	private := V.Any(a[0] == 10, V.All(a[0] == 172, a[1]&0xf0 == 16), V.All(a[0] == 192, a[1] == 168))
	V.Assert(h.TTL == 1, "C17/ttl-kept")
	if skip && private {
		V.Reach("redacted")
		V.Assert(V.All(len(h.IPAddress) == 0, h.RTT == 0, !h.Reachable, !h.IsDest, len(h.ReverseDns) == 0), "C17/private-hop-cleared")
	} else {
		V.Reach("kept")
		V.Assert(V.All(len(h.IPAddress) == 4, h.Reachable, h.RTT == 1.5), "C17/public-hop-untouched")
	}
	V.Assert(V.All(hops[2].IsDest, hops[2].Reachable, !hops[1].Reachable, len(hops[1].IPAddress) == 0), "C16/reachable-iff-address")
	V.Assert(V.LiveGoroutines() == 0, "C10/no-goroutine-outlives-the-call")
}
