package sack

import (
	"context"

	"github.com/DataDog/datadog-traceroute/common"
	V "github.com/DataDog/datadog-traceroute/zzverif"
	N "github.com/DataDog/datadog-traceroute/zzvnet"
)

// Verif_C14_sack: the real TracerouteParallel over the real SACK driver in an arbitrary post-handshake state, with a
// capture source that already holds replies for TTLs of the window (genuine time-exceeded quotes built from the
// configuration, so they can arrive before, while or after their probe is sent). The happens-before monitor checks
// every memory access of the sender and receiver goroutines.
func Verif_C14_sack() {
	local := N.Addr4("local")
	d, _, src, _, target := vFreshDriver()
	d.localPort = V.U16("sport")
	d.state = &sackTCPState{localInitSeq: V.U32("isn"), localInitAck: V.U32("iack")}
	d.localAddr = local
	src.Timed = true
	// a time-exceeded quoting the probe with TTL 1 or 2 (what the driver will send / has sent)
	nrep := V.ParamInt("replies", 1)
	for i := 0; i < nrep; i++ {
		t := V.U8("replyTTL")
		V.Assume(t >= 1)
		V.Assume(t <= 2)
		seq := d.state.localInitSeq + uint32(t)
		la, ta := local.As4(), target.Addr().As4()
		quoted := append(N.IP4Header(la[:], ta[:], 6, 20), byte(d.localPort>>8), byte(d.localPort), byte(target.Port()>>8), byte(target.Port()),
			byte(seq>>24), byte(seq>>16), byte(seq>>8), byte(seq))
		src.Queue = append(src.Queue, N.ICMPError4(quoted, 11, 0, 28, 0, 0))
	}
	p := d.params.ParallelParams
	p.MinTTL, p.MaxTTL = 1, 2
	p.TracerouteTimeout = 2 * p.PollFrequency
	d.params.ParallelParams = p
	res, err := common.TracerouteParallel(context.Background(), d, p)
	V.Assert(err == nil, "C14/run-completes")
	for _, h := range res {
		if h != nil {
			V.Reach("hop-found")
		}
	}
	V.Reach("end")
}
