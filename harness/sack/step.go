package sack

import (
	"errors"
	"time"

	"github.com/DataDog/datadog-traceroute/common"
	V "github.com/DataDog/datadog-traceroute/zzverif"
	N "github.com/DataDog/datadog-traceroute/zzvnet"
)

// Verif_Step_sack_arb: one real ReceiveProbe over an arbitrary IPv4 packet (C01, C04, C09 for TCP SACK).
func Verif_Step_sack_arb() {
	L := V.ParamInt("L", 56)
	d, sink, src, _, target, min, m := vSetup()
	P := V.Bytes("P", L)
	N.BoundArb4(P)
	if V.ParamInt("tcponly", 0) == 1 && L >= 20 {
		// only TCP segments behind an option-less IPv4 header (the option area of the segment stays arbitrary)
		V.Assume(V.All(P[0] == 0x45, P[9] == 6))
	}
	V.ClockAdvance(time.Duration(V.U32("flight"))) // the reply arrives an arbitrary time after the last send
	src.Next = append([]byte(nil), P...)
	resp, err := d.ReceiveProbe(100 * time.Millisecond)
	if L >= 40 && V.ParamInt("c20", 0) == 1 {
		// C20: the target acknowledging on the probed connection without any SACK block means "SACK unavailable" -
		// that must surface as NotSupportedError (prefer_sack falls back on it), not be skipped as noise
		var ns0 *NotSupportedError
		doff := int(P[32] >> 4)
		_, hasSack, optsOK := uint32(0), false, true
		if doff > 5 && 20+doff*4 <= L {
			_, hasSack = vMinSack(P[40:20+V.Concretize(doff)*4], d.state.localInitSeq)
			optsOK = vOptsOK(P[40 : 20+V.Concretize(doff)*4])
		}
		tl := int(N.BE16(P[2:4])) // declared total length: must cover the TCP header (0 = TSO, gopacket takes the buffer length)
		plainAck := V.All(P[0]&0xf == 5, P[6]&0x3f == 0, P[7] == 0, V.Any(tl == 0, tl >= 20+doff*4), doff >= 5, 20+doff*4 <= L, vOnTuple(P, sink.Pkts[0]), P[33]&0x07 == 0, !hasSack, optsOK)
		V.Assert(V.Implies(plainAck, V.All(err != nil, errors.As(err, &ns0))), "C20/ack-without-sack-blocks-is-unsupported")
	}
	if err != nil {
		V.Reach("rejected")
		var ns *NotSupportedError
		if errors.As(err, &ns) {
			// the one inbound packet allowed to end a run: the target acknowledging on the probed connection without SACK blocks
			V.Reach("not-supported")
			fl := P[33]
			V.Assert(V.All(vOnTuple(P, sink.Pkts[0]), fl&0x07 == 0), "C09/only-allowed-abort")
		} else {
			V.Assert(common.CheckProbeRetryable("ReceiveProbe", err), "C09/retryable")
		}
		V.Assert(resp == nil, "C09/no-result-with-error")
		return
	}
	V.Reach("accepted")
	V.Assert(resp != nil, "C09/non-nil")
	ttl := resp.TTL
	V.Assert(V.All(ttl >= min, ttl <= m), "C01/ttl-was-sent")
	V.Assume(V.All(ttl >= min, ttl <= m))
	ihl := V.Concretize(int(P[0] & 0xf))
	idx := V.Concretize(int(ttl - min))
	pr := sink.Pkts[idx]
	V.Assert(resp.RTT == time.Duration(V.NowNs()-sink.Times[idx]), "C05/rtt-send-to-receive-same-probe")
	V.Assert(resp.IP == N.Src4(P), "C01/responder")
	isTCP := P[9] == 6
	if isTCP {
		V.Reach("accepted-sack")
		doff := V.Concretize(int(P[ihl*4+12] >> 4))
		rel, found := vMinSack(P[ihl*4+20:ihl*4+doff*4], d.state.localInitSeq)
		V.Assert(V.All(vOnTuple(P, pr), P[33]&0x07 == 0, found, rel == uint32(ttl)), "C01/genuine")
		V.Assert(resp.IsDest, "C04/sack-is-dest")
	} else {
		V.Reach("accepted-icmp")
		qihl := V.Concretize(int(P[ihl*4+8] & 0xf))
		V.Assert(vGenuineICMP(P, ihl, qihl, pr, d.params.LoosenICMPSrc), "C01/genuine")
		ta := target.Addr().As4()
		V.Assert(resp.IsDest == V.BytesEq(P[12:16], ta[:]), "C04/icmp-dest-iff-from-target")
	}
	V.Assert(resp.RTT >= 0, "C05/rtt-nonneg")
}

// Verif_Step_sack_layout: arbitrary TCP segment whose option area follows a catalogue layout (NOP NOP SACK with 1-2
// blocks, optionally preceded by NOP NOP TIMESTAMPS); every other byte - addresses, ports, flags, sequence numbers,
// block edges - symbolic. Decides C01/C04/C09 for the selective-ACK form, which needs >= 10 option bytes.
func Verif_Step_sack_layout() {
	d, sink, src, _, _, min, m := vSetup()
	nb := V.ParamInt("blocks", 1)
	ts := V.ParamInt("ts", 0) == 1
	optLen := 4 + 8*nb
	if ts {
		optLen += 12
	}
	L := 40 + optLen
	P := V.Bytes("P", L)
	V.Assume(P[0] == 0x45)
	V.Assume(P[9] == 6)
	V.Assume(int(P[32]>>4) == (20+optLen)/4)
	o := 40
	if ts {
		V.Assume(V.All(P[o] == 1, P[o+1] == 1, P[o+2] == 8, P[o+3] == 10))
		o += 12
	}
	anylen := V.ParamInt("anylen", 0) == 1
	if anylen {
		// the SACK option's length byte is arbitrary within the option area (lengths that are not 2+8n included:
		// a trailing partial block must be ignored, never read)
		V.Assume(V.All(P[o] == 1, P[o+1] == 1, P[o+2] == 5, P[o+3] >= 2, int(P[o+3]) <= 2+8*nb))
		// whatever the option leaves of the area is NOP padding (otherwise the tail is a second arbitrary option list)
		for k := o + 2 + V.Concretize(int(P[o+3])); k < L; k++ {
			V.Assume(P[k] == 1)
		}
	} else {
		V.Assume(V.All(P[o] == 1, P[o+1] == 1, P[o+2] == 5, int(P[o+3]) == 2+8*nb))
	}
	V.ClockAdvance(time.Duration(V.U32("flight"))) // the reply arrives an arbitrary time after the last send
	src.Next = append([]byte(nil), P...)
	resp, err := d.ReceiveProbe(100 * time.Millisecond)
	if err != nil {
		V.Reach("rejected")
		var ns *NotSupportedError
		if !anylen {
			V.Assert(!errors.As(err, &ns), "C09/sack-blocks-present-never-unsupported")
		} else if errors.As(err, &ns) {
			V.Reach("not-supported")
			return
		}
		V.Assert(common.CheckProbeRetryable("ReceiveProbe", err), "C09/retryable")
		return
	}
	V.Reach("accepted-sack")
	ttl := resp.TTL
	V.Assert(V.All(ttl >= min, ttl <= m), "C01/ttl-was-sent")
	V.Assume(V.All(ttl >= min, ttl <= m))
	idx := V.Concretize(int(ttl - min))
	pr := sink.Pkts[idx]
	V.Assert(resp.RTT == time.Duration(V.NowNs()-sink.Times[idx]), "C05/rtt-send-to-receive-same-probe")
	rel, found := vMinSack(P[40:], d.state.localInitSeq)
	V.Assert(V.All(vOnTuple(P, pr), P[33]&0x07 == 0, found, rel == uint32(ttl)), "C01/genuine")
	V.Assert(resp.IP == N.Src4(P), "C01/responder")
	V.Assert(resp.IsDest, "C04/sack-is-dest")
	V.Assert(resp.RTT >= 0, "C05/rtt-nonneg")
}
