package sack

import (
	"context"
	"errors"
	"net"
	"net/netip"
	"time"

	"github.com/DataDog/datadog-traceroute/common"
	"github.com/DataDog/datadog-traceroute/packets"
	V "github.com/DataDog/datadog-traceroute/zzverif"
	N "github.com/DataDog/datadog-traceroute/zzvnet"
)

// vSynAck builds the target's SYN-ACK for the model connection.
func vSynAck(target netip.AddrPort, local net.IP, lport uint16, sackPermitted bool) []byte {
	opts := []byte{2, 4, 5, 0xb4, 1, 1, 1, 0}
	if sackPermitted {
		opts = []byte{2, 4, 5, 0xb4, 4, 2, 1, 0}
	}
	ta := target.Addr().As4()
	p := N.IP4Header(ta[:], local, 6, 20+len(opts))
	f := V.Bytes("tcpfree", 8)
	p = append(p, byte(target.Port()>>8), byte(target.Port()), byte(lport>>8), byte(lport), f[0], f[1], f[2], f[3], f[4], f[5], f[6], f[7],
		byte((20+len(opts))/4)<<4, 0x12, 0xff, 0xff, 0, 0, 0, 0)
	return append(p, opts...)
}

// Verif_C10_sack: the real runSackTraceroute, whole, over model handles, a model dial and a scripted handshake, with
// one symbolic fault. Decides C10 (atomicity, causes, handles closed once, no goroutine left) and C20(b): only "cannot
// connect" and "no SACK-permitted" are classified as NotSupportedError; every other failure is not.
func Verif_C10_sack() {
	src, sink := &N.Source{Timed: true}, &N.Sink{FailErr: N.ErrInjected}
	localIP := net.IP{192, 0, 2, 10}
	local := &net.UDPAddr{IP: localIP, Port: 40007}
	udpConn := &N.Conn{Local: local}
	tcpConn := &N.Conn{Local: &net.TCPAddr{IP: localIP, Port: 50123}}
	target := netip.AddrPortFrom(netip.AddrFrom4([4]byte{198, 51, 100, 1}), 443)
	fault := V.U8("fault")
	V.Assume(fault <= 10)
	f := V.Concretize(int(fault))
	k := 1
	if f >= 8 {
		kk := V.U8("k")
		V.Assume(kk >= 1)
		V.Assume(kk <= 2)
		k = V.Concretize(int(kk))
	}
	if V.Bool("closeFails") {
		// closing a handle may itself report an error; the other handles must still be released
		src.CloseErr, sink.CloseErr = N.ErrInjected, N.ErrInjected
	}
	handleMade, dialed := false, false
	common.VerifHookLocalAddrForHost = func(destIP net.IP, destPort uint16) (*net.UDPAddr, net.Conn, error) {
		if f == 1 {
			return nil, nil, N.ErrInjected
		}
		return local, udpConn, nil
	}
	packets.VerifHookNewSourceSink = func(addr netip.Addr, useDriver bool) (packets.SourceSinkHandle, error) {
		if f == 2 {
			return packets.SourceSinkHandle{}, N.ErrInjected
		}
		handleMade = true
		return packets.SourceSinkHandle{Source: src, Sink: sink}, nil
	}
	VerifHookDial = func(ctx context.Context, p Params) (net.Conn, error) {
		_, hasDL := ctx.Deadline()
		V.Assert(hasDL, "C08/dial-has-deadline")
		if f == 4 {
			return nil, N.ErrInjected
		}
		dialed = true
		if f != 5 {
			// the kernel completed the handshake: the capture source sees the target's SYN-ACK
			src.Queue = append(src.Queue, vSynAck(target, localIP, 50123, f != 6))
		}
		return tcpConn, nil
	}
	switch f {
	case 3:
		src.FilterFailAt = 1
	case 7:
		src.FilterFailAt = 2
	case 8:
		src.DeadlineFailAt = k
	case 9:
		sink.FailAt = k
	case 10:
		src.ReadFailAt = k
	}
	p := vParams(target, 1, 2, true)
	p.HandshakeTimeout, p.FinTimeout = 200*time.Millisecond, 100*time.Millisecond
	p.ParallelParams.TracerouteTimeout = 200 * time.Millisecond
	res, err := runSackTraceroute(context.Background(), p)
	var ns *NotSupportedError
	hit := f >= 1 && f <= 7 || (f == 8 && src.Deadlines >= k) || (f == 9 && sink.Writes >= k) || (f == 10 && src.Reads >= k)
	if f != 0 && hit {
		V.Reach("fault-hit")
		V.Assert(V.All(err != nil, res == nil), "C10/error-and-no-partial-result")
		switch f {
		case 4, 6:
			V.Reach("unsupported")
			V.Assert(errors.As(err, &ns), "C20/unavailable-sack-is-NotSupportedError")
		default:
			V.Assert(!errors.As(err, &ns), "C20/other-failures-are-not-classified-as-unsupported")
		}
		if f != 5 && f != 6 {
			V.Assert(errors.Is(err, N.ErrInjected), "C10/cause-preserved")
		}
	} else {
		V.Reach("no-fault")
		V.Assert(V.All(err == nil, res != nil), "C10/success-without-fault")
		if res != nil {
			V.Assert(V.All(res.LocalAddr.Port() == 50123, len(res.Hops) == 2), "C06/reported-endpoints")
			for _, pk := range sink.Pkts {
				V.Assert(V.All(net.IP(pk[12:16]).Equal(localIP), N.BE16(pk[20:22]) == 50123, N.BE16(pk[22:24]) == 443), "C06/reported-endpoints-are-on-the-wire")
			}
			if len(src.Filters) == 2 {
				V.Assert(V.All(src.Filters[0].FilterType == packets.FilterTypeSYNACK, src.Filters[1].FilterType == packets.FilterTypeTCP,
					src.Filters[1].FilterConfig.Src == target, src.Filters[1].FilterConfig.Dst.Port() == 50123), "C12/filter-specs-match-the-run")
			}
		}
	}
	if f != 1 {
		V.Assert(udpConn.Closed == 1, "C10/local-addr-socket-closed-once")
	}
	if dialed {
		V.Assert(tcpConn.Closed == 1, "C10/tcp-connection-closed-once")
	}
	if handleMade {
		V.Assert(V.All(src.Closed == 1, sink.Closed == 1), "C10/handles-closed-exactly-once")
		V.Assert(V.All(!src.UsedAfterClose, !sink.UsedAfterClose), "C10/no-use-after-close")
	}
	V.Assert(V.LiveGoroutines() == 0, "C10/no-goroutine-outlives-the-call")
}
