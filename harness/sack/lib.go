package sack

import (
	"net/netip"
	"time"

	"github.com/DataDog/datadog-traceroute/common"
	V "github.com/DataDog/datadog-traceroute/zzverif"
	N "github.com/DataDog/datadog-traceroute/zzvnet"
)

func vParams(target netip.AddrPort, min, max uint8, loosen bool) Params {
	return Params{
		Target:           target,
		HandshakeTimeout: time.Second,
		FinTimeout:       time.Second,
		ParallelParams: common.TracerouteParallelParams{TracerouteParams: common.TracerouteParams{
			MinTTL: min, MaxTTL: max,
			TracerouteTimeout: time.Second, PollFrequency: 100 * time.Millisecond, SendDelay: 10 * time.Millisecond,
		}},
		LoosenICMPSrc: loosen,
	}
}

// vSetup builds the real SACK driver in an arbitrary post-handshake state (any initial sequence number, with or
// without timestamps) and sends probes min..m with the real SendProbe. Params: W, loosen, maxTTL (upper limit on max, default 255).
func vSetup() (d *sackDriver, sink *N.Sink, src *N.Source, local netip.Addr, target netip.AddrPort, min, m uint8) {
	W := uint8(V.ParamInt("W", 2))
	local = N.Addr4("local")
	target = netip.AddrPortFrom(N.Addr4("target"), V.U16("dport"))
	min = V.U8("min")
	var max uint8
	if pm := V.ParamInt("max", 0); pm != 0 {
		max = uint8(pm) // the driver sizes its send-time table from MaxTTL: concrete per job
	} else {
		max = V.U8("max")
	}
	V.Assume(min >= 1)
	V.Assume(min <= max)
	V.Assume(max-min <= W-1)
	V.Assume(int(max) <= V.ParamInt("maxTTL", 255))
	sink, src = &N.Sink{Takes: V.ParamInt("writeTakes", 0) == 1}, &N.Source{}
	var err error
	d, err = newSackDriver(vParams(target, min, max, V.ParamInt("loosen", 0) == 1), local, sink, src)
	V.Assert(err == nil, "setup/no-error")
	d.localPort = V.U16("sport")
	d.state = &sackTCPState{
		localInitSeq: V.U32("isn"),
		localInitAck: V.U32("iack"),
		hasTS:        V.ParamInt("ts", 0) == 1,
		tsValue:      V.U32("tsval"),
		tsEcr:        V.U32("tsecr"),
	}
	m = V.U8("m")
	V.Assume(m >= min)
	V.Assume(m <= max)
	for t := min; ; t++ {
		err := d.SendProbe(t)
		V.Assert(err == nil, "send/no-error")
		V.ClockAdvance(time.Duration(V.U32("gap")))
		if t == m {
			break
		}
	}
	return
}

// vGenuineICMP: ICMP time-exceeded quoting probe pr: destination address and port, TCP sequence number, and -
// with strict checking - the source address and port.
func vGenuineICMP(p []byte, ihl, qihl int, pr []byte, loosen bool) bool {
	o := ihl * 4
	if qihl < 5 || len(p) < o+8+qihl*4+8 {
		return false // the quote does not hold an IPv4 header plus 8 transport bytes
	}
	q := p[o+8:]
	t := q[qihl*4:]
	base := V.All(p[0]>>4 == 4, p[9] == 1, p[o] == 11,
		V.BytesEq(q[16:20], pr[16:20]), V.BytesEq(t[2:4], pr[22:24]), V.BytesEq(t[4:8], pr[24:28]))
	if loosen {
		return base
	}
	return V.All(base, V.BytesEq(q[12:16], pr[12:16]), V.BytesEq(t[0:2], pr[20:22]))
}

// vMinSack walks a TCP option area independently of gopacket and returns the lowest SACK left edge relative to isn.
func vMinSack(opts []byte, isn uint32) (uint32, bool) {
	min := uint32(0xffffffff)
	found := false
	for i := 0; i < len(opts); {
		kind := opts[i]
		if kind == 0 {
			break
		}
		if kind == 1 {
			i++
			continue
		}
		if i+1 >= len(opts) {
			break
		}
		// decide "malformed length" symbolically first, so that only the few lengths that fit are enumerated
		if opts[i+1] < 2 || int(opts[i+1]) > len(opts)-i {
			break
		}
		l := V.Concretize(int(opts[i+1]))
		if kind == 5 {
			for j := i + 2; j+8 <= i+l; j += 8 {
				rel := N.BE32(opts[j:j+4]) - isn
				found = true
				if rel < min {
					min = rel
				}
			}
		}
		i += l
	}
	return min, found
}

// vOptsOK: the option area is well formed in the sense every TCP stack (and the decoder) requires: each option other
// than EOL/NOP has a length byte, the length is >= 2 and fits the remaining area. A segment that fails this is
// malformed traffic (rejected as a bad packet), not an acknowledgement "without SACK blocks".
func vOptsOK(opts []byte) bool {
	for i := 0; i < len(opts); {
		kind := opts[i]
		if kind == 0 {
			return true
		}
		if kind == 1 {
			i++
			continue
		}
		if i+1 >= len(opts) {
			return false
		}
		if opts[i+1] < 2 || int(opts[i+1]) > len(opts)-i {
			return false
		}
		i += V.Concretize(int(opts[i+1]))
	}
	return true
}

// vOnTuple: TCP segment from target:port to local:localPort.
func vOnTuple(p []byte, pr []byte) bool {
	return V.All(p[0]>>4 == 4, p[9] == 6, V.BytesEq(p[12:16], pr[16:20]), V.BytesEq(p[16:20], pr[12:16]),
		V.BytesEq(p[20:22], pr[22:24]), V.BytesEq(p[22:24], pr[20:22]))
}

// vFreshDriver builds a real driver before the handshake (state nil) with symbolic endpoints.
func vFreshDriver() (d *sackDriver, sink *N.Sink, src *N.Source, local netip.Addr, target netip.AddrPort) {
	local = N.Addr4("local")
	target = netip.AddrPortFrom(N.Addr4("target"), V.U16("dport"))
	sink, src = &N.Sink{}, &N.Source{}
	max := uint8(V.ParamInt("max", 30))
	var err error
	d, err = newSackDriver(vParams(target, 1, max, V.ParamInt("loosen", 1) == 1), local, sink, src)
	V.Assert(err == nil, "setup/no-error")
	return
}
