package sack

import (
	"time"

	V "github.com/DataDog/datadog-traceroute/zzverif"
	N "github.com/DataDog/datadog-traceroute/zzvnet"
)

func be32(v uint32) []byte { return []byte{byte(v >> 24), byte(v >> 16), byte(v >> 8), byte(v)} }

// Verif_C02_sack: time-exceeded forms for probe t are reported as hop t; a duplicate ACK whose lowest SACK block
// starts at probe t's sequence number is reported as the destination at TTL t - for every initial sequence number.
func Verif_C02_sack() {
	d, sink, src, _, _, min, m := vSetup()
	t := V.U8("t")
	V.Assume(t >= min)
	V.Assume(t <= m)
	pr := sink.Pkts[V.Concretize(int(t-min))]
	form := V.ParamInt("form", 0)
	var P []byte
	wantDest := form >= 4
	isn := d.state.localInitSeq
	edge := isn + uint32(t) // = the probe's sequence number, wrap-around included
	switch form {
	case 0:
		P = N.ICMPError4(pr, 11, 0, 28, 0, 0)
	case 1:
		P = N.ICMPError4(pr, 11, 0, len(pr), 0, 0)
	case 2:
		P = N.ICMPError4(pr, 11, 0, len(pr), 128-len(pr)+8, 0)
	case 3:
		P = N.ICMPError4(pr, 11, 0, 28, 0, 1)
	case 4, 5, 6: // duplicate ACK with 1, 2 or 3 SACK blocks; the probe's block is the lowest relative to isn, at a symbolic position
		nb := form - 3
		var opts []byte
		if V.ParamInt("tsopt", 0) == 1 {
			ts := V.Bytes("ts", 8)
			opts = append(opts, 1, 1, 8, 10)
			opts = append(opts, ts...)
		}
		opts = append(opts, 1, 1, 5, byte(2+8*nb))
		pos := V.U8("blockpos")
		V.Assume(int(pos) < nb)
		for i := 0; i < nb; i++ {
			// other blocks lie above the probe's (later probes), i.e. relative left edge in (t, 255]
			other := V.U8("otherttl")
			V.Assume(other > t)
			left := isn + uint32(other)
			if uint8(i) == pos {
				left = edge
			}
			opts = append(opts, be32(left)...)
			opts = append(opts, be32(left+1)...)
		}
		P = vACK(pr, opts)
	}
	if d.params.LoosenICMPSrc && form < 4 {
		nat := V.Bytes("nat", 6)
		o := int(P[0]&0xf)*4 + 8
		copy(P[o+12:o+16], nat[0:4])
		copy(P[o+20:o+22], nat[4:6])
	}
	N.Noise(src, d.ReceiveProbe)
	src.Next = P
	resp, err := d.ReceiveProbe(100 * time.Millisecond)
	V.Assert(err == nil, "C02/accepted")
	if err != nil {
		return
	}
	V.Reach("accepted")
	V.Assert(resp.TTL == t, "C02/ttl")
	V.Assert(resp.IP == N.Src4(P), "C02/responder")
	V.Assert(V.Implies(wantDest, resp.IsDest), "C02/dest-flag")
}

// vACK builds a pure ACK segment from the target to the prober with the given option area.
func vACK(pr []byte, opts []byte) []byte {
	hl := 20 + len(opts)
	p := N.IP4Header(pr[16:20], pr[12:16], 6, hl)
	free := V.Bytes("tcpfree", 14) // seq(4) ack(4) window(2) checksum(2) urgent(2)
	fl := V.U8("flags")
	V.Assume(fl&0x07 == 0) // no SYN/FIN/RST
	V.Assume(fl&0x10 != 0) // ACK
	p = append(p, pr[22], pr[23], pr[20], pr[21], free[0], free[1], free[2], free[3], free[4], free[5], free[6], free[7],
		byte(hl/4)<<4, fl, free[8], free[9], free[10], free[11], free[12], free[13])
	p = append(p, opts...)
	return p
}
