package sack

import (
	V "github.com/DataDog/datadog-traceroute/zzverif"
	N "github.com/DataDog/datadog-traceroute/zzvnet"
)

// Verif_C06_sack: every SACK probe is a well-formed ACK|PSH segment with one payload byte, the probed TTL, the run's
// endpoints, sequence number isn+ttl (mod 2^32), the negotiated acknowledgement number, optional timestamps, correct checksums.
func Verif_C06_sack() {
	d, sink, _, local, target, min, m := vSetup()
	V.Assert(len(sink.Pkts) == int(m-min)+1, "C06/one-probe-per-ttl")
	i := V.U8("i")
	V.Assume(i <= m-min)
	k := V.Concretize(int(i))
	p, ttl := sink.Pkts[k], min+uint8(k)
	V.Assert(sink.Dsts[k] == target, "C06/written-to-target")
	V.Assert(N.WellFormed4(p, ttl, 6, local.AsSlice(), target.Addr().AsSlice()), "C06/ip-header")
	hl := 20
	if d.state.hasTS {
		hl = 32
	}
	V.Assert(V.All(len(p) == 20+hl+1, N.BE16(p[20:22]) == d.localPort, N.BE16(p[22:24]) == target.Port(),
		N.BE32(p[24:28]) == d.state.localInitSeq+uint32(ttl), N.BE32(p[28:32]) == d.state.localInitAck,
		int(p[32]>>4) == hl/4, p[33] == 0x18, N.BE16(p[34:36]) == 1024, p[20+hl] == ttl), "C06/tcp-header")
	if d.state.hasTS {
		V.Assert(V.All(p[40] == 8, p[41] == 10, N.BE32(p[42:46]) == d.state.tsValue+uint32(ttl), N.BE32(p[46:50]) == d.state.tsEcr, p[50] == 1, p[51] == 1), "C06/timestamps")
	}
	V.Assert(N.L4CsumOK4(p), "C06/l4-checksum")
	if m > min {
		a, b := sink.Pkts[0], sink.Pkts[1]
		V.Assert(!V.BytesEq(a[24:28], b[24:28]), "C06/unique-id")
		V.Assert(V.All(V.BytesEq(a[12:24], b[12:24]), sink.Dsts[0] == sink.Dsts[1]), "C06/constant-flow")
	}
	V.Reach("end")
}
