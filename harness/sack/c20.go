package sack

import (
	"errors"
	"time"

	"github.com/DataDog/datadog-traceroute/common"
	V "github.com/DataDog/datadog-traceroute/zzverif"
	N "github.com/DataDog/datadog-traceroute/zzvnet"
)

// Verif_C20_handshake: the real ReadHandshake over a scripted source: optional noise, then the target's SYN-ACK in a
// catalogue option layout (MSS, optional SACK-permitted, optional timestamps, window scale). With SACK-permitted the
// driver is established with the sequence numbers of the SYN-ACK; without it the error is a NotSupportedError (which
// prefer_sack falls back on); nothing else (noise, silence) is classified as "unsupported".
func Verif_C20_handshake() {
	d, _, src, local, target := vFreshDriver()
	lport := V.U16("lport")
	var queue [][]byte
	if V.ParamInt("noise", 0) == 1 {
		nz := V.Bytes("noise", 40)
		N.BoundArb4(nz)
		// noise = anything that is not itself the target's SYN-ACK on this connection
		ta, la := target.Addr().As4(), local.As4()
		isHandshake := V.All(nz[9] == 6, V.BytesEq(nz[12:16], ta[:]), V.BytesEq(nz[16:20], la[:]),
			N.BE16(nz[20:22]) == target.Port(), N.BE16(nz[22:24]) == lport, nz[33]&0x12 == 0x12)
		V.Assume(!isHandshake)
		queue = append(queue, nz)
	}
	arrives := V.Bool("synackArrives")
	sackPerm := V.Bool("sackPermitted")
	ts := V.Bool("timestamps")
	var seq, ack uint32
	if arrives {
		var opts []byte
		var tsv []byte
		if K := V.ParamInt("slots", 0); K > 0 {
			// free layout: K option slots, each any of NOP / MSS / window scale / SACK-permitted / timestamps, in any
			// order (the layouts of Linux, Windows and BSD stacks - padding before SACK-permitted included - are
			// instances); SACK-permitted and timestamps count wherever they stand
			sackPerm, ts = false, false
			for i := 0; i < K; i++ {
				k := V.U8("optkind")
				V.Assume(k <= 4)
				switch V.Concretize(int(k)) {
				case 0:
					opts = append(opts, 1)
				case 1:
					opts = append(opts, 2, 4, V.U8("mss1"), V.U8("mss2"))
				case 2:
					opts = append(opts, 3, 3, V.U8("wscale"))
				case 3:
					opts = append(opts, 4, 2)
					sackPerm = true
				case 4:
					tsv = V.Bytes("tsdata", 8)
					opts = append(opts, 8, 10)
					opts = append(opts, tsv...)
					ts = true
				}
			}
		} else {
			opts = []byte{2, 4, V.U8("mss1"), V.U8("mss2")}
			if sackPerm {
				opts = append(opts, 4, 2)
			} else {
				opts = append(opts, 1, 1)
			}
			if ts {
				tsv = V.Bytes("tsdata", 8)
				opts = append(opts, 8, 10)
				opts = append(opts, tsv...)
			}
			opts = append(opts, 1, 3, 3, V.U8("wscale"))
		}
		for len(opts)%4 != 0 {
			opts = append(opts, 0)
		}
		V.Assume(len(opts) <= 40) // a TCP header carries at most 40 option bytes
		hl := 20 + len(opts)
		ta, la := target.Addr().As4(), local.As4()
		p := N.IP4Header(ta[:], la[:], 6, hl)
		f := V.Bytes("tcpfree", 14)
		seq, ack = N.BE32(f[0:4]), N.BE32(f[4:8])
		fl := uint8(0x12) | (V.U8("ecn") & 0xc0)
		p = append(p, byte(target.Port()>>8), byte(target.Port()), byte(lport>>8), byte(lport), f[0], f[1], f[2], f[3], f[4], f[5], f[6], f[7],
			byte(hl/4)<<4, fl, f[8], f[9], f[10], f[11], f[12], f[13])
		p = append(p, opts...)
		queue = append(queue, p)
		_ = tsv
	}
	src.Queue = queue
	err := d.ReadHandshake(lport)
	var ns *NotSupportedError
	if arrives && sackPerm {
		V.Reach("established")
		V.Assert(err == nil, "C20/handshake-with-sack-permitted-succeeds")
		if err == nil {
			V.Assert(V.All(d.state != nil, d.state.localInitSeq == ack, d.state.localInitAck == seq+1, d.state.hasTS == ts), "C20/handshake-state")
		}
		return
	}
	V.Assert(err != nil, "C20/no-handshake-no-run")
	if arrives {
		V.Reach("not-supported")
		V.Assert(errors.As(err, &ns), "C20/missing-sack-permitted-is-unsupported")
	} else {
		V.Reach("timed-out")
		V.Assert(!errors.As(err, &ns), "C20/silence-is-not-unsupported")
		V.Assert(!common.CheckProbeRetryable("ReadHandshake", err), "C20/handshake-timeout-is-an-error")
	}
}

// Verif_C08_handshake: ReadHandshake under a flood: K arbitrary packets that are not the awaited SYN-ACK arrive at
// arbitrary times (each Read returns at the packet's arrival or at its deadline). The call returns an error no later
// than 500 ms after it began — unrelated traffic cannot extend the handshake window.
func Verif_C08_handshake() {
	d, _, src, local, target := vFreshDriver()
	lport := V.U16("lport")
	K := V.ParamInt("flood", 2)
	L := V.ParamInt("L", 40)
	ta, la := target.Addr().As4(), local.As4()
	for i := 0; i < K; i++ {
		nz := V.Bytes("flood", L)
		N.BoundArb4(nz)
		if L >= 34 {
			isHandshake := V.All(nz[9] == 6, V.BytesEq(nz[12:16], ta[:]), V.BytesEq(nz[16:20], la[:]),
				N.BE16(nz[20:22]) == target.Port(), N.BE16(nz[22:24]) == lport, nz[33]&0x12 == 0x12)
			V.Assume(!isHandshake)
		}
		src.Queue = append(src.Queue, nz)
	}
	src.Flood = true
	start := V.NowNs()
	err := d.ReadHandshake(lport)
	elapsed := V.NowNs() - start
	V.Reach("end")
	V.Assert(err != nil, "C08/handshake-flood-does-not-establish")
	V.Assert(elapsed <= int64(500*time.Millisecond), "C08/handshake-returns-within-its-timeout-under-flood")
	var ns *NotSupportedError
	V.Assert(!errors.As(err, &ns), "C20/silence-is-not-unsupported")
}
