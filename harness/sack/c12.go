package sack

import (
	"errors"
	"net/netip"
	"time"

	"github.com/DataDog/datadog-traceroute/packets"
	V "github.com/DataDog/datadog-traceroute/zzverif"
	N "github.com/DataDog/datadog-traceroute/zzvnet"
)

// Verif_C12_nohide_sack: during the run the SACK entry point installs FilterTypeTCP{Src: target, Dst: local:port};
// every frame the SACK matcher accepts (time-exceeded, selective ACK) - or that may end the run (ACK without SACK
// blocks) - passes it.
func Verif_C12_nohide_sack() {
	L := V.ParamInt("L", 56)
	d, _, src, local, target, _, _ := vSetup()
	eth := V.Bytes("eth", 14)
	P := V.Bytes("P", L)
	N.BoundArb4(P)
	V.Assume(V.All(eth[12] == 0x08, eth[13] == 0x00))
	frame := append(append([]byte(nil), eth...), P...)
	src.Next = append([]byte(nil), P...)
	_, err := d.ReceiveProbe(100 * time.Millisecond)
	if err != nil {
		V.Reach("rejected")
		return
	}
	V.Reach("accepted")
	spec := packets.PacketFilterSpec{FilterType: packets.FilterTypeTCP, FilterConfig: packets.FilterConfig{
		Src: target, Dst: netip.AddrPortFrom(local, d.localPort)}}
	V.Assert(packets.VerifFilterAccepts(spec, frame), "C12/filter-passes-every-matchable-frame")
}

// Verif_C12_nohide_handshake: during the handshake the SACK entry point installs FilterTypeSYNACK{Src: target}; every
// frame whose payload the real ReadHandshake turns into an established connection (or into "SACK not supported",
// which decides the fallback) passes that filter.
func Verif_C12_nohide_handshake() {
	L := V.ParamInt("L", 48)
	d, _, src, _, target := vFreshDriver()
	lport := V.U16("lport")
	eth := V.Bytes("eth", 14)
	P := V.Bytes("P", L)
	N.BoundArb4(P)
	V.Assume(V.All(eth[12] == 0x08, eth[13] == 0x00))
	frame := append(append([]byte(nil), eth...), P...)
	src.Queue = [][]byte{append([]byte(nil), P...)}
	err := d.ReadHandshake(lport)
	var ns *NotSupportedError
	if err != nil && !errors.As(err, &ns) {
		V.Reach("rejected")
		return
	}
	if err == nil {
		V.Reach("established")
	} else {
		V.Reach("unsupported")
	}
	spec := packets.PacketFilterSpec{FilterType: packets.FilterTypeSYNACK, FilterConfig: packets.FilterConfig{Src: target}}
	V.Assert(packets.VerifFilterAccepts(spec, frame), "C12/filter-passes-every-matchable-frame")
}
