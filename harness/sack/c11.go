package sack

import (
	"time"

	"github.com/DataDog/datadog-traceroute/common"
	V "github.com/DataDog/datadog-traceroute/zzverif"
	N "github.com/DataDog/datadog-traceroute/zzvnet"
)

// Verif_C11_cross_sack: two SACK runs A and B to the same target and port on different local ports (two kernel
// connections). With relaxed source checking (what the library configures) the quoted source port is not compared,
// so the runs are told apart by their sequence-number windows: assumption - two initial sequence numbers chosen by
// the kernel differ by more than 255 (stated in the evidence).
func Verif_C11_cross_sack() {
	dA, sinkA, _, local, target, min, m := vSetup()
	sinkB, srcB := &N.Sink{}, &N.Source{}
	dB, err := newSackDriver(dA.params, local, sinkB, srcB)
	V.Assert(err == nil, "setup/no-error")
	dB.localPort = V.U16("sport-B")
	V.Assume(dB.localPort != dA.localPort)
	dB.state = &sackTCPState{localInitSeq: V.U32("isn-B"), localInitAck: V.U32("iack-B")}
	form := V.ParamInt("form", 0)
	if form == 0 {
		// only the ICMP path (quoted source port not compared under relaxed checking) needs the sequence windows to
		// differ; TCP segments are told apart by the local port, whatever the two sequence spaces look like
		dist := dB.state.localInitSeq - dA.state.localInitSeq
		V.Assume(dist > 255)
		V.Assume(dist < 0xffffff00)
	}
	_ = target
	for t := min; ; t++ {
		V.Assert(dB.SendProbe(t) == nil, "send/no-error")
		if t == m {
			break
		}
	}
	t := V.U8("t")
	V.Assume(t >= min)
	V.Assume(t <= m)
	pr := sinkA.Pkts[V.Concretize(int(t-min))]
	var P []byte
	switch form {
	case 0:
		P = N.ICMPError4(pr, 11, 0, 28, 0, 0)
	case 1: // duplicate ACK on A's connection selectively acknowledging A's probe
		edge := dA.state.localInitSeq + uint32(t)
		opts := []byte{1, 1, 5, 10}
		opts = append(opts, be32(edge)...)
		opts = append(opts, be32(edge+1)...)
		P = vACK(pr, opts)
	case 2: // plain ACK (no SACK block) on A's connection: for A it means "SACK unsupported"; B must not be aborted by it
		P = vACK(pr, []byte{1, 1, 1, 1})
	}
	srcB.Next = P
	resp, rerr := dB.ReceiveProbe(100 * time.Millisecond)
	V.Assert(V.All(rerr != nil, resp == nil), "C11/reply-to-another-run-is-not-a-hop")
	V.Assert(common.CheckProbeRetryable("ReceiveProbe", rerr), "C11/another-runs-packet-does-not-abort-this-run")
	V.Reach("end")
}
