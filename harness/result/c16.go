package result

import (
	"encoding/base64"

	V "github.com/DataDog/datadog-traceroute/zzverif"
)

// Verif_C16_e2e: the end-to-end probe statistics Normalize derives from n RTT samples (each any non-negative
// finite value up to 1e13 ms, zeros = unanswered): sent = n, received = number of positive samples, loss =
// (sent-received)/sent, min <= avg <= max over the positive samples, 0 <= jitter <= max-min. IEEE-754 semantics, exact.
func Verif_C16_e2e() {
	n := V.ParamInt("n", 3)
	var r Results
	var xs []float64
	for i := 0; i < n; i++ {
		x := V.F64("rtt")
		V.Assume(x >= 0)
		V.Assume(x <= 1e13)
		xs = append(xs, x)
	}
	r.E2eProbe.RTTs = append([]float64(nil), xs...)
	r.Normalize()
	e := r.E2eProbe
	V.Assert(e.PacketsSent == n, "C16/sent")
	recv := 0
	var pos []float64
	for _, x := range xs {
		if x > 0 {
			recv++
			pos = append(pos, x)
		}
	}
	V.Assert(e.PacketsReceived == recv, "C16/received")
	V.Assert(e.PacketLossPercentage == float32(n-recv)/float32(n), "C16/loss")
	if recv == 0 {
		V.Reach("none-answered")
		V.Assert(V.All(e.RTT.Avg == 0, e.RTT.Min == 0, e.RTT.Max == 0, e.Jitter == 0), "C16/all-zero-when-unanswered")
		return
	}
	V.Reach("answered")
	lo, hi := pos[0], pos[0]
	for _, x := range pos {
		// branch-free min/max so that the oracle adds no paths
		lo = V.MinF(lo, x)
		hi = V.MaxF(hi, x)
	}
	V.Assert(V.All(e.RTT.Min == lo, e.RTT.Max == hi), "C16/min-max")
	V.Assert(V.All(e.RTT.Min <= e.RTT.Avg, e.RTT.Avg <= e.RTT.Max), "C16/min-avg-max")
	V.Assert(e.Jitter >= 0, "C16/jitter-nonneg")
	V.Assert(e.Jitter <= e.RTT.Max-e.RTT.Min, "C16/jitter-bound")
}

// Verif_C16_hops: reachability flags and hop-count statistics.
func Verif_C16_hops() {
	nr, nh := V.ParamInt("runs", 2), V.ParamInt("hops", 2)
	var r Results
	minLen, maxLen := 1<<30, 0
	for i := 0; i < nr; i++ {
		// run lengths 1..nh
		l := V.U8("len")
		V.Assume(l >= 1)
		V.Assume(int(l) <= nh)
		L := V.Concretize(int(l))
		run := TracerouteRun{}
		for j := 0; j < L; j++ {
			h := vSymHop(j + 1)
			h.Reachable = false // as ToHops produces
			run.Hops = append(run.Hops, h)
		}
		r.Traceroute.Runs = append(r.Traceroute.Runs, run)
		if L < minLen {
			minLen = L
		}
		if L > maxLen {
			maxLen = L
		}
	}
	r.Normalize()
	for i := range r.Traceroute.Runs {
		for _, h := range r.Traceroute.Runs[i].Hops {
			V.Assert(h.Reachable == (len(h.IPAddress) != 0), "C16/reachable-iff-address")
		}
	}
	hc := r.Traceroute.HopCount
	V.Assert(V.All(hc.Min <= hc.Max, float64(hc.Min) <= hc.Avg, hc.Avg <= float64(hc.Max)), "C16/hopcount-order")
	V.Assert(V.All(hc.Min >= 1, hc.Max <= maxLen), "C16/hopcount-within-run-lengths")
	V.Assert(r.TestRunID != "", "C16/test-run-id-set")
	V.Reach("end")
}

// Verif_C16_ids: (1) newBase64UUID returns exactly the library's raw-URL base64 encoding of the UUID it drew, 22
// characters; (2) that encoding is injective on a 3-byte group and on the 1-byte tail (the 16 bytes are encoded as
// five independent 3-byte groups plus one byte), so different UUIDs give different identifiers. The 16-byte
// injectivity query in one piece (44 table look-ups of 64 entries) is beyond all three solvers at 120 s; it is
// decided group by group instead and the composition is by construction of base64.
func Verif_C16_ids() {
	id := newBase64UUID()
	u := V.LastUUID()
	V.Assert(id == base64.RawURLEncoding.EncodeToString(u), "C16/id-is-base64-of-uuid")
	V.Assert(len(id) == 22, "C16/id-length")
	x, y := V.Bytes("x", 3), V.Bytes("y", 3)
	V.Assert(V.Implies(base64.RawURLEncoding.EncodeToString(x) == base64.RawURLEncoding.EncodeToString(y), V.BytesEq(x, y)), "C16/base64-group-injective")
	p, q := V.Bytes("p", 1), V.Bytes("q", 1)
	V.Assert(V.Implies(base64.RawURLEncoding.EncodeToString(p) == base64.RawURLEncoding.EncodeToString(q), p[0] == q[0]), "C16/base64-tail-injective")
	// the encoding of 16 bytes is the concatenation of the group encodings
	g := V.Bytes("g", 16)
	whole := base64.RawURLEncoding.EncodeToString(g)
	parts := ""
	for i := 0; i < 15; i += 3 {
		parts += base64.RawURLEncoding.EncodeToString(g[i : i+3])
	}
	parts += base64.RawURLEncoding.EncodeToString(g[15:16])
	V.Assert(whole == parts, "C16/base64-groupwise")
	V.Reach("end")
}
