package result

import (
	"net"

	V "github.com/DataDog/datadog-traceroute/zzverif"
)

// vPrivRef: the RFC 1918 / RFC 4193 blocks, applied to 4-byte, IPv4-mapped 16-byte and plain 16-byte addresses.
func vPrivRef(ip []byte) bool {
	switch len(ip) {
	case 4:
		return V.Any(ip[0] == 10, V.All(ip[0] == 172, ip[1]&0xf0 == 16), V.All(ip[0] == 192, ip[1] == 168))
	case 16:
		mapped := V.All(ip[0] == 0, ip[1] == 0, ip[2] == 0, ip[3] == 0, ip[4] == 0, ip[5] == 0, ip[6] == 0, ip[7] == 0,
			ip[8] == 0, ip[9] == 0, ip[10] == 0xff, ip[11] == 0xff)
		v4 := V.Any(ip[12] == 10, V.All(ip[12] == 172, ip[13]&0xf0 == 16), V.All(ip[12] == 192, ip[13] == 168))
		ula := ip[0]&0xfe == 0xfc
		return V.Any(V.All(mapped, v4), V.All(!mapped, ula))
	}
	return false
}

type vHopCopy struct {
	ptr  *TracerouteHop
	ttl  int
	ip   []byte
	rtt  float64
	rch  bool
	dest bool
	ndns int
}

func vSymHop(ttl int) *TracerouteHop {
	h := &TracerouteHop{TTL: ttl, RTT: V.F64("rtt"), Reachable: V.Bool("reachable"), IsDest: V.Bool("isdest")}
	switch V.ParamInt("addr", -1) {
	case 0:
	case 4:
		h.IPAddress = net.IP(V.Bytes("ip4", 4))
	case 16:
		h.IPAddress = net.IP(V.Bytes("ip16", 16))
	default:
		k := V.U8("addrkind")
		V.Assume(k <= 2)
		switch V.Concretize(int(k)) {
		case 1:
			h.IPAddress = net.IP(V.Bytes("ip4", 4))
		case 2:
			h.IPAddress = net.IP(V.Bytes("ip16", 16))
		}
	}
	if V.Bool("hasdns") {
		h.ReverseDns = []string{"name.example"}
	}
	return h
}

// Verif_C17_redact: RemovePrivateHops on an arbitrary document: private hops lose everything but TTL and position,
// public and empty hops are the same objects with the same field values, the number of hops is unchanged.
func Verif_C17_redact() {
	nr, nh := V.ParamInt("runs", 1), V.ParamInt("hops", 2)
	var r Results
	var before [][]vHopCopy
	for i := 0; i < nr; i++ {
		run := TracerouteRun{}
		var cp []vHopCopy
		for j := 0; j < nh; j++ {
			h := vSymHop(j + 1)
			run.Hops = append(run.Hops, h)
			cp = append(cp, vHopCopy{ptr: h, ttl: h.TTL, ip: append([]byte(nil), h.IPAddress...), rtt: h.RTT, rch: h.Reachable, dest: h.IsDest, ndns: len(h.ReverseDns)})
		}
		r.Traceroute.Runs = append(r.Traceroute.Runs, run)
		before = append(before, cp)
	}
	r.RemovePrivateHops()
	V.Assert(len(r.Traceroute.Runs) == nr, "C17/run-count")
	for i := 0; i < nr; i++ {
		V.Assert(len(r.Traceroute.Runs[i].Hops) == nh, "C17/hop-count")
		for j := 0; j < nh; j++ {
			h, b := r.Traceroute.Runs[i].Hops[j], before[i][j]
			V.Assert(h.TTL == b.ttl, "C17/ttl-kept")
			if vPrivRef(b.ip) {
				V.Reach("private")
				V.Assert(V.All(len(h.IPAddress) == 0, h.RTT == 0, !h.Reachable, !h.IsDest, len(h.ReverseDns) == 0, h.Port == 0), "C17/private-hop-cleared")
			} else {
				V.Reach("public")
				V.Assert(h == b.ptr, "C17/public-hop-same-object")
				V.Assert(V.All(V.BytesEq(h.IPAddress, b.ip), h.Reachable == b.rch, h.IsDest == b.dest, len(h.ReverseDns) == b.ndns), "C17/public-hop-untouched")
			}
		}
	}
}
