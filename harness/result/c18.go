package result

import (
	"context"
	"errors"
	"net"
	"time"

	"github.com/DataDog/datadog-traceroute/cache"
	"github.com/DataDog/datadog-traceroute/reversedns"
	V "github.com/DataDog/datadog-traceroute/zzverif"
)

// vResolver answers per address: the first time an address is asked, a symbolic kind (names / empty / error) is fixed
// for it; later questions for the same address get the same answer. It logs every invocation.
type vResolver struct {
	addrs   []string
	kinds   []uint8 // 0 names, 1 empty, 2 error, 3 the lookup's own deadline expired
	calls   []string
	started []int64
}

func (r *vResolver) lookup(ctx context.Context, addr string) ([]string, error) {
	V.Yield()
	_, hasDL := ctx.Deadline()
	V.Assert(hasDL, "C08/dns-lookup-has-deadline")
	r.calls = append(r.calls, addr)
	k := r.kindOf(addr)
	V.Yield()
	switch k {
	case 0:
		return []string{"name-of-" + addr}, nil
	case 1:
		return nil, nil
	case 3:
		// a resolver that never answers: the call returns when the deadline it was handed expires
		if dl, ok := ctx.Deadline(); ok {
			V.Sleep(V.Until(dl))
		}
		return nil, context.DeadlineExceeded
	}
	return nil, errors.New("lookup failed")
}

func (r *vResolver) kindOf(addr string) uint8 {
	for i, a := range r.addrs {
		if a == addr {
			return r.kinds[i]
		}
	}
	k := V.U8("answerKind")
	V.Assume(int(k) <= V.ParamInt("maxKind", 3))
	kk := uint8(V.Concretize(int(k)))
	r.addrs = append(r.addrs, addr)
	r.kinds = append(r.kinds, kk)
	return kk
}

// Verif_C18_rdns: EnrichWithReverseDns on a document with symbolic addresses (duplicates and empty hops included),
// for every completion order of the concurrent lookups: each hop's and destination's names are the resolver's
// answer for that same address, empty on error; nothing else in the document changes; a stored success is not re-queried.
func Verif_C18_rdns() {
	cache.Cache.Flush()
	res := &vResolver{}
	old := reversedns.LookupAddrFn
	reversedns.LookupAddrFn = res.lookup
	defer func() { reversedns.LookupAddrFn = old }()
	nh := V.ParamInt("hops", 2)
	var r Results
	run := TracerouteRun{}
	// addresses come in 4-byte or (IPv4-mapped) 16-byte form, as net.ParseIP / To4 / AsSlice produce them
	symAddr := func(tag string) net.IP {
		b := V.Bytes(tag, 4)
		if V.Bool(tag + "16") {
			return net.IPv4(b[0], b[1], b[2], b[3])
		}
		return net.IP(b)
	}
	run.Destination.IPAddress = symAddr("dst")
	type snap struct {
		ttl  int
		ip   []byte
		rtt  float64
		dest bool
	}
	var before []snap
	for j := 0; j < nh; j++ {
		h := &TracerouteHop{TTL: j + 1, RTT: V.F64("rtt"), IsDest: V.Bool("isdest")}
		if V.Bool("answered") {
			h.IPAddress = symAddr("hopip")
		}
		run.Hops = append(run.Hops, h)
		before = append(before, snap{h.TTL, append([]byte(nil), h.IPAddress...), h.RTT, h.IsDest})
	}
	r.Traceroute.Runs = append(r.Traceroute.Runs, run)
	t0 := V.NowNs()
	r.EnrichWithReverseDns()
	// the lookups of a batch run side by side: however many resolvers stall, the batch takes one lookup timeout
	V.Assert(V.NowNs()-t0 <= int64(5*time.Second), "C08/dns-batch-bounded-by-one-lookup-timeout")
	check := func(ip net.IP, got []string, label string) {
		if len(ip) == 0 {
			V.Assert(len(got) == 0, "C18/no-names-without-address")
			return
		}
		k := res.kindOf(ip.String())
		if k == 0 {
			V.Assert(V.All(len(got) == 1, len(got) >= 1 && got[0] == "name-of-"+ip.String()), label)
		} else {
			V.Assert(len(got) == 0, label)
		}
	}
	out := &r.Traceroute.Runs[0]
	check(out.Destination.IPAddress, out.Destination.ReverseDns, "C18/destination-names-are-its-address-answer")
	V.Assert(len(out.Hops) == nh, "C18/hop-count-unchanged")
	for j, h := range out.Hops {
		check(h.IPAddress, h.ReverseDns, "C18/hop-names-are-its-address-answer")
		V.Assert(V.All(h.TTL == before[j].ttl, V.BytesEq(h.IPAddress, before[j].ip), h.IsDest == before[j].dest), "C18/rest-of-document-unchanged")
	}
	V.Assert(V.LiveGoroutines() == 0, "C10/no-goroutine-outlives-the-call")
	// second round, resolver healthy again: a stored success is served without asking; a failure was not stored,
	// so the address is asked again and now gets its names
	for i := range res.addrs {
		if V.ParamInt("retry", 1) == 0 {
			break
		}
		addr, was := res.addrs[i], res.kinds[i]
		res.kinds[i] = 0
		n := len(res.calls)
		names, err := reversedns.GetReverseDns(addr)
		if was <= 1 {
			V.Assert(len(res.calls) == n, "C18/stored-success-not-requeried")
			V.Assert(err == nil && ((was == 0 && len(names) == 1) || (was == 1 && len(names) == 0)), "C18/stored-success-served")
		} else {
			V.Reach("retry-after-failure")
			V.Assert(len(res.calls) == n+1, "C18/failure-was-not-cached")
			V.Assert(err == nil && len(names) == 1 && names[0] == "name-of-"+addr, "C18/failure-was-not-cached")
		}
	}
	V.Reach("end")
}
