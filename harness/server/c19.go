package server

import (
	"net/url"

	V "github.com/DataDog/datadog-traceroute/zzverif"
)

// Verif_C19_query: the HTTP layer passes integers and strings through unchanged (no clamping, wrapping or
// defaulting of explicit values), so the library-level check of C19 covers the HTTP path; skip-private-hops parses as a boolean.
func Verif_C19_query() {
	u, err := url.Parse(V.Param("url"))
	V.Assert(err == nil, "C19/url-parses")
	p, perr := parseTracerouteParams(u)
	if V.ParamInt("wantErr", 0) == 1 {
		V.Assert(perr != nil, "C19/query-rejected")
		V.Reach("rejected")
		return
	}
	V.Assert(perr == nil, "C19/query-accepted")
	V.Reach("accepted")
	V.Assert(p.Hostname == V.Param("wantTarget"), "C19/query-target")
	V.Assert(p.MaxTTL == V.ParamInt("wantMaxTTL", 30), "C19/query-max-ttl")
	V.Assert(p.MinTTL == 1, "C19/query-min-ttl")
	V.Assert(p.Port == V.ParamInt("wantPort", 33434), "C19/query-port")
	V.Assert(p.Protocol == V.Param("wantProtocol"), "C19/query-protocol")
	V.Assert(string(p.TCPMethod) == V.Param("wantMethod"), "C19/query-method")
	V.Assert(p.SkipPrivateHops == (V.ParamInt("wantSkip", 0) == 1), "C17/query-skip-private-hops")
}
