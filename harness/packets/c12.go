package packets

import (
	"net/netip"

	"golang.org/x/net/bpf"

	V "github.com/DataDog/datadog-traceroute/zzverif"
)

// VerifFilterAccepts runs the classic-BPF program the real getClassicBPFFilter returns for spec on frame, using
// the real golang.org/x/net/bpf virtual machine (Disassemble -> NewVM -> Run). Used by the driver packages too.
func VerifFilterAccepts(spec PacketFilterSpec, frame []byte) bool {
	raw, err := getClassicBPFFilter(spec)
	V.Assert(err == nil, "C12/filter-generated")
	insns, allDecoded := bpf.Disassemble(raw)
	V.Assert(allDecoded, "C12/filter-disassembles")
	vm, err := bpf.NewVM(insns)
	V.Assert(err == nil, "C12/filter-valid-program")
	out, err := vm.Run(frame)
	V.Assert(err == nil, "C12/filter-runs")
	return out > 0
}

func vSymConfig() FilterConfig {
	s, d := V.Bytes("cfgsrc", 4), V.Bytes("cfgdst", 4)
	return FilterConfig{
		Src: netip.AddrPortFrom(netip.AddrFrom4([4]byte{s[0], s[1], s[2], s[3]}), V.U16("cfgsport")),
		Dst: netip.AddrPortFrom(netip.AddrFrom4([4]byte{d[0], d[1], d[2], d[3]}), V.U16("cfgdport")),
	}
}

func be16(b []byte) uint16 { return uint16(b[0])<<8 | uint16(b[1]) }

// Verif_C12_exact: accept(frame) <=> Ref(frame) for each filter program, Ref written from the property text.
// The frame has N symbolic bytes and a symbolic captured length n <= N; the tuple configuration is symbolic.
func Verif_C12_exact() {
	N := V.ParamInt("N", 110)
	full := V.Bytes("frame", N)
	n := V.Int("caplen")
	V.Assume(n >= 0)
	V.Assume(n <= N)
	frame := full[:n]
	kind := V.Param("filter")
	var spec PacketFilterSpec
	var cfg FilterConfig
	switch kind {
	case "tcp":
		cfg = vSymConfig()
		spec = PacketFilterSpec{FilterType: FilterTypeTCP, FilterConfig: cfg}
	case "synack":
		spec = PacketFilterSpec{FilterType: FilterTypeSYNACK, FilterConfig: vSymConfig()}
	case "icmp":
		spec = PacketFilterSpec{FilterType: FilterTypeICMP}
	}
	var accept bool
	if kind == "dropall" {
		insns, _ := bpf.Disassemble(dropAllFilter)
		vm, _ := bpf.NewVM(insns)
		out, err := vm.Run(frame)
		accept = err == nil && out > 0
	} else {
		accept = VerifFilterAccepts(spec, frame)
	}
	// reference predicate: every byte it inspects must lie inside the captured length
	has := func(k int) bool { return n >= k } // bytes [0,k) captured
	ref := false
	switch kind {
	case "dropall":
		ref = false
	case "icmp":
		v4 := V.All(has(24), be16(full[12:14]) == 0x0800, full[23] == 1)
		v6 := V.All(has(21), be16(full[12:14]) == 0x86dd, full[20] == 58)
		v6frag := V.All(has(55), be16(full[12:14]) == 0x86dd, full[20] == 44, full[54] == 58)
		ref = V.Any(v4, v6, v6frag)
	case "tcp", "synack":
		ihl := 0
		if n >= 15 {
			ihl = V.Concretize(int(full[14] & 0xf))
		}
		ip4 := V.All(has(14), be16(full[12:14]) == 0x0800)
		unfrag := V.All(has(22), be16(full[20:22])&0x1fff == 0)
		t := 14 + 4*ihl // start of the TCP header
		if kind == "tcp" {
			icmp := V.All(ip4, has(24), full[23] == 1)
			s4, d4 := cfg.Src.Addr().As4(), cfg.Dst.Addr().As4()
			tuple := false
			if t+4 <= N {
				tuple = V.All(ip4, has(34), full[23] == 6, V.BytesEq(full[26:30], s4[:]), V.BytesEq(full[30:34], d4[:]), unfrag,
					has(t+4), be16(full[t:t+2]) == cfg.Src.Port(), be16(full[t+2:t+4]) == cfg.Dst.Port())
			}
			ref = V.Any(icmp, tuple)
		} else {
			if t+14 <= N {
				ref = V.All(ip4, has(24), full[23] == 6, unfrag, has(t+14), full[t+13]&0x02 != 0, full[t+13]&0x10 != 0)
			}
		}
	}
	if accept {
		V.Reach("accepted")
	} else {
		V.Reach("dropped")
	}
	V.Assert(accept == ref, "C12/filter-exact")
}
