package packets

import (
	V "github.com/DataDog/datadog-traceroute/zzverif"
)

func Verif_T0_alloc() {
	m := V.U8("max")
	a := AllocPacketID(m)
	b := AllocPacketID(3)
	V.Assert(b == a+uint16(m), "T0/consecutive")
	V.Assert(b != a, "T0/distinct") // fails for m == 0
	V.Reach("end")
}

func Verif_T0_parse() {
	L := V.ParamInt("L", 28)
	p := V.Bytes("P", L)
	fp := NewFrameParser()
	err := fp.Parse(p)
	if err == nil {
		V.Reach("parsed")
	} else {
		V.Reach("error")
	}
}
