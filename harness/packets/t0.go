package packets

import (
	V "github.com/DataDog/datadog-traceroute/zzverif"
)

func Verif_T0_alloc() {
	m := V.U8("max")
	a := AllocPacketID(m)
	b := AllocPacketID(3)
	V.Assert(b == a+uint16(m), "T0/consecutive")
	V.Assert(b != a, "T0/distinct") // fails for m == 0
	V.Reach("end")
}

func Verif_T0_parse() {
	L := V.ParamInt("L", 28)
	p := V.Bytes("P", L)
	fp := NewFrameParser()
	err := fp.Parse(p)
	if err == nil {
		V.Reach("parsed")
	} else {
		V.Reach("error")
	}
}

func Verif_T0_assume() {
	p := V.Bytes("P", 4)
	maxIHL := V.ParamInt("maxIHL", 5)
	V.Assume(p[0]>>4 == 4)
	V.Assume(int(p[0]&0xf) <= maxIHL)
	ihl := p[0] & 0xf
	V.Assert(ihl <= 5, "T0/ihl")
	if ihl*4 > 20 {
		V.Fail("T0/unreachable")
	}
	V.Reach("end")
}

func Verif_T0_parse5() {
	L := V.ParamInt("L", 28)
	p := V.Bytes("P", L)
	V.Assume(p[0]>>4 == 4)
	V.Assume(int(p[0]&0xf) <= 5)
	fp := NewFrameParser()
	err := fp.Parse(p)
	if err == nil {
		V.Reach("parsed")
		V.Assert(fp.IP4.IHL == 5, "T0/ihl5")
	} else {
		V.Reach("error")
	}
}
