package packets

import (
	"errors"
	"syscall"
	"unsafe"

	"golang.org/x/net/bpf"
	"golang.org/x/sys/unix"

	V "github.com/DataDog/datadog-traceroute/zzverif"
)

// vRawConn is a model syscall.RawConn: Control runs the callback on a fixed descriptor unless it is scripted to fail.
type vRawConn struct {
	controls      int
	controlFailAt int
}

var errVControl = errors.New("model RawConn.Control failure")

func (c *vRawConn) Control(f func(fd uintptr)) error {
	c.controls++
	if c.controlFailAt != 0 && c.controls == c.controlFailAt {
		return errVControl
	}
	f(7)
	return nil
}
func (c *vRawConn) Read(f func(fd uintptr) bool) error  { return nil }
func (c *vRawConn) Write(f func(fd uintptr) bool) error { return nil }

// the model kernel behind the socket calls (the executor redirects syscall.Recvfrom, unix.SetsockoptSockFprog and
// syscall.SetsockoptInt here)
type vSockState struct {
	attached   [][]unix.SockFilter // programs attached, in order
	sockoptN   int
	sockoptErr [3]syscall.Errno // per call: 0 = success
	pending    int              // packets queued on the socket before the drop-all filter took effect
	recvN      int
	recvErrno  syscall.Errno // what the drain gets once the queue is empty (EAGAIN on a healthy socket)
	recvFailAt int           // 1-based receive call that fails with recvErrno while packets are still queued (0 = never)
	drainedAt  int           // number of programs attached when the queue became empty
	log        []string
}

var vSock vSockState

func vSetsockoptSockFprog(fd, level, opt int, fprog *unix.SockFprog) error {
	vSock.sockoptN++
	if e := vSock.sockoptErr[(vSock.sockoptN-1)%3]; e != 0 {
		return e
	}
	n := int(fprog.Len)
	prog := append([]unix.SockFilter(nil), unsafe.Slice(fprog.Filter, n)...)
	vSock.attached = append(vSock.attached, prog)
	return nil
}

func vSetsockoptInt(fd, level, opt int, value int) error { return nil }

func vRecvfrom(fd int, p []byte, flags int) (int, syscall.Sockaddr, error) {
	vSock.recvN++
	if vSock.recvFailAt != 0 && vSock.recvN == vSock.recvFailAt {
		return -1, nil, vSock.recvErrno
	}
	if vSock.pending > 0 {
		vSock.pending--
		if vSock.pending == 0 {
			vSock.drainedAt = len(vSock.attached)
		}
		return 1, nil, nil
	}
	return -1, nil, syscall.EAGAIN
}

func sameProgram(a []unix.SockFilter, b []bpf.RawInstruction) bool {
	if len(a) != len(b) {
		return false
	}
	for i := range a {
		if a[i].Code != b[i].Op || a[i].Jt != b[i].Jt || a[i].Jf != b[i].Jf || a[i].K != b[i].K {
			return false
		}
	}
	return true
}

// Verif_C10_setbpf: the real SetBPFAndDrain over the model descriptor, for every single fault among: either
// SO_ATTACH_FILTER call failing with an arbitrary errno, RawConn.Control failing at any of its three uses, the
// drain failing with an arbitrary errno other than EAGAIN while 0..2 packets are queued. On success the order is
// drop-all -> queue drained -> requested program (no stale packet can be read afterwards); on failure the error
// wraps the cause.
func Verif_C10_setbpf() {
	vSock = vSockState{}
	rc := &vRawConn{}
	fault := V.U8("fault")
	V.Assume(fault <= 4)
	errno := syscall.Errno(V.U16("errno"))
	V.Assume(errno != 0)
	V.Assume(errno < 134)
	vSock.pending = V.Concretize(int(V.U8("queued") % 3))
	queued := vSock.pending
	var cause error
	switch V.Concretize(int(fault)) {
	case 1: // first attach (drop-all) fails
		vSock.sockoptErr[0] = errno
		cause = errno
	case 2: // second attach (the requested program) fails
		vSock.sockoptErr[1] = errno
		cause = errno
	case 3: // a Control call fails
		k := V.U8("controlAt")
		V.Assume(k >= 1)
		V.Assume(k <= 3)
		rc.controlFailAt = V.Concretize(int(k))
		cause = errVControl
	case 4: // the drain hits a real receive error
		V.Assume(errno != syscall.EAGAIN)
		k := V.U8("recvAt")
		V.Assume(k >= 1)
		V.Assume(int(k) <= vSock.pending+1)
		vSock.recvFailAt = V.Concretize(int(k))
		vSock.recvErrno = errno
		cause = errno
	}
	prog := icmpFilter
	err := SetBPFAndDrain(rc, prog)
	if fault == 0 {
		V.Reach("no-fault")
		V.Assert(err == nil, "C10/no-spurious-error")
		V.Assert(len(vSock.attached) == 2, "C10/two-programs-attached")
		if len(vSock.attached) == 2 {
			V.Assert(sameProgram(vSock.attached[0], dropAllFilter), "C10/drop-all-first")
			V.Assert(sameProgram(vSock.attached[1], prog), "C10/requested-program-last")
		}
		// every queued packet was consumed while only the drop-all program was attached, and the drain went on
		// until the socket reported EAGAIN
		V.Assert(vSock.pending == 0 && (queued == 0 || vSock.drainedAt == 1) && vSock.recvN == queued+1, "C10/drained-before-the-program-is-installed")
		return
	}
	V.Reach("fault-hit")
	V.Assert(err != nil, "C10/no-partial-result")
	if err != nil {
		V.Assert(errors.Is(err, cause), "C10/cause-preserved")
	}
}
