package packets

import (
	"errors"
	"os"
	"time"

	"github.com/DataDog/datadog-traceroute/common"
	V "github.com/DataDog/datadog-traceroute/zzverif"
)

// vFrames is the queue of link-layer frames the model socket delivers to (*os.File).Read; the executor redirects
// that method here (engine/main.go), so the real afPacketSource.Read loop runs unchanged on a nil *os.File.
var vFrames [][]byte
var vFrameReads int

func vFileRead(f *os.File, b []byte) (int, error) {
	vFrameReads++
	if len(vFrames) == 0 {
		return 0, os.ErrDeadlineExceeded
	}
	fr := vFrames[0]
	vFrames = vFrames[1:]
	return copy(b, fr), nil
}

func vFilterSpec(kind string) PacketFilterSpec {
	switch kind {
	case "icmp":
		return PacketFilterSpec{FilterType: FilterTypeICMP}
	case "udp":
		return PacketFilterSpec{FilterType: FilterTypeUDP}
	case "synack":
		return PacketFilterSpec{FilterType: FilterTypeSYNACK, FilterConfig: vSymConfig()}
	}
	return PacketFilterSpec{FilterType: FilterTypeTCP, FilterConfig: vSymConfig()}
}

// Verif_C09_strip: stripEthernetHeader on an arbitrary frame of every captured length 0..N never panics; it
// fails only for frames shorter than an Ethernet header, skips (nil, nil) exactly the non-IP ethertypes, and
// otherwise returns the bytes after the 14-byte header.
func Verif_C09_strip() {
	N := V.ParamInt("N", 24)
	full := V.Bytes("frame", N)
	n := V.Int("caplen")
	V.Assume(n >= 0)
	V.Assume(n <= N)
	frame := full[:V.Concretize(n)]
	payload, err := stripEthernetHeader(frame)
	if err != nil {
		V.Reach("error")
		V.Assert(len(frame) < 14, "C09/strip-fails-only-on-short-frames")
		return
	}
	V.Assert(len(frame) >= 14, "C09/strip-fails-only-on-short-frames")
	et := be16(frame[12:14])
	if payload == nil {
		V.Reach("skipped")
		V.Assert(et != 0x0800 && et != 0x86dd, "C09/strip-skips-exactly-non-ip")
		return
	}
	V.Reach("payload")
	V.Assert(et == 0x0800 || et == 0x86dd, "C09/strip-skips-exactly-non-ip")
	V.Assert(V.BytesEq(payload, frame[14:]), "C09/strip-returns-the-ip-packet")
}

// Verif_C09_frame: the real afPacketSource.Read + ReadAndParse + FrameParser over a queue of arbitrary frames
// that the installed filter lets through (the kernel applies the filter before delivery; the real program runs
// in the real x/net/bpf VM). No frame sequence panics, and the only outcomes are a parsed packet, a retryable
// error (bad packet / nothing before the deadline) — never a fatal error such as "Read() returned 0 bytes".
func Verif_C09_frame() {
	N := V.ParamInt("N", 48)
	K := V.ParamInt("frames", 2)
	kind := V.Param("filter")
	spec := vFilterSpec(kind)
	vFrames = nil
	var delivered [][]byte
	for i := 0; i < K; i++ {
		full := V.Bytes("frame", N)
		n := V.Int("caplen")
		V.Assume(n >= 0)
		V.Assume(n <= N)
		fr := full[:V.Concretize(n)]
		if kind == "none" || VerifFilterAccepts(spec, fr) {
			delivered = append(delivered, fr)
		}
	}
	vFrames = append(vFrames, delivered...)
	src := &afPacketSource{}
	buf := make([]byte, 1024)
	parser := NewFrameParser()
	err := ReadAndParse(src, buf, parser)
	if kind == "none" {
		// without a filter (no entry point runs this way) only the absence of a panic is claimed
		V.Reach("end")
		return
	}
	if err == nil {
		V.Reach("parsed")
		return
	}
	var noPkt *common.ReceiveProbeNoPktError
	var bad *common.BadPacketError
	if errors.Is(err, os.ErrDeadlineExceeded) {
		V.Reach("nothing")
		// the read deadline is reported only when every delivered frame was consumed or skipped
		V.Assert(len(vFrames) == 0, "C09/deadline-only-when-queue-is-empty")
		V.Assert(errors.As(err, &noPkt), "C09/frame-level-error-is-retryable")
		return
	}
	V.Reach("bad")
	V.Assert(errors.As(err, &bad) || errors.As(err, &noPkt), "C09/frame-level-error-is-retryable")
}

// Verif_C08_readtimeout: getReadTimeout (the poll timeout the darwin/Windows capture handles hand to the OS) for
// every deadline within +-15 min of the virtual clock (the model clock starts 1000 s after its zero instant, which
// stands for the zero time.Time; real clocks are two millennia away from it), and for "no deadline": never zero or negative (a blocking
// read), never longer than the time left when that exceeds the 100 ms floor, 1 s without a deadline.
func Verif_C08_readtimeout() {
	if V.Bool("noDeadline") {
		V.Reach("no-deadline")
		V.Assert(getReadTimeout(time.Time{}) == time.Second, "C08/read-timeout-default")
		return
	}
	off := V.I64("offsetNs")
	V.Assume(off >= -int64(15*time.Minute))
	V.Assume(off <= int64(15*time.Minute))
	dl := time.Now().Add(time.Duration(off))
	r := getReadTimeout(dl)
	V.Reach("deadline")
	V.Assert(r >= 100*time.Millisecond, "C08/read-timeout-has-a-floor")
	if off >= int64(100*time.Millisecond) {
		V.Assert(int64(r) == off, "C08/read-timeout-is-the-time-left")
	} else {
		V.Assert(r == 100*time.Millisecond, "C08/read-timeout-has-a-floor")
	}
}
