package packets

import (
	V "github.com/DataDog/datadog-traceroute/zzverif"
)

// Verif_C11_alloc: from an arbitrary allocator state (32-bit counter, wrap-around included) three consecutive
// allocations of arbitrary sizes hand out pairwise disjoint identifier ranges (base, base+maxTTL] modulo 2^16.
func Verif_C11_alloc() {
	RandomizePacketIDBase() // arbitrary allocator state through the package's own setter (its rand.Uint32 draw is symbolic)
	m1, m2, m3 := V.U8("m1"), V.U8("m2"), V.U8("m3")
	b1 := AllocPacketID(m1)
	b2 := AllocPacketID(m2)
	b3 := AllocPacketID(m3)
	o1, o2, o3 := V.U8("o1"), V.U8("o2"), V.U8("o3")
	V.Assume(V.All(o1 >= 1, o1 <= m1, o2 >= 1, o2 <= m2, o3 >= 1, o3 <= m3))
	i1, i2, i3 := b1+uint16(o1), b2+uint16(o2), b3+uint16(o3) // identifiers the three runs put on the wire
	V.Assert(i1 != i2, "C11/ranges-disjoint-12")
	V.Assert(i2 != i3, "C11/ranges-disjoint-23")
	V.Assert(i1 != i3, "C11/ranges-disjoint-13")
	V.Reach("end")
}

// Verif_C14_alloc: two goroutines allocating identifier ranges at once: no race, ranges disjoint.
func Verif_C14_alloc() {
	RandomizePacketIDBase()
	done := make(chan uint16, 2)
	go func() { done <- AllocPacketID(30) }()
	go func() { done <- AllocPacketID(30) }()
	a, b := <-done, <-done
	d := a - b
	V.Assert(V.Any(d == 30, d == 0xffff-29), "C11/concurrent-ranges-disjoint")
	V.Reach("end")
}
