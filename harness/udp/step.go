package udp

import (
	"time"

	"github.com/DataDog/datadog-traceroute/common"
	V "github.com/DataDog/datadog-traceroute/zzverif"
	N "github.com/DataDog/datadog-traceroute/zzvnet"
)

func vFindProbe(sink *N.Sink, min, ttl uint8) []byte {
	return sink.Pkts[V.Concretize(int(ttl-min))]
}

// Verif_Step_udp4_arb: one real ReceiveProbe over an arbitrary IPv4 packet (C01, C04, C09 for UDP/IPv4).
func Verif_Step_udp4_arb() {
	L := V.ParamInt("L", 56)
	d, cfg, sink, src, min, m := vSetup(false)
	P := V.Bytes("P", L)
	N.BoundArb4(P)
	V.ClockAdvance(time.Duration(V.U32("flight"))) // the reply arrives an arbitrary time after the last send
	src.Next = append([]byte(nil), P...)
	resp, err := d.ReceiveProbe(100 * time.Millisecond)
	if err != nil {
		V.Reach("rejected")
		V.Assert(common.CheckProbeRetryable("ReceiveProbe", err), "C09/retryable")
		V.Assert(resp == nil, "C09/no-result-with-error")
		return
	}
	V.Reach("accepted")
	V.Assert(resp != nil, "C09/non-nil")
	ttl := resp.TTL
	V.Assert(V.All(ttl >= min, ttl <= m), "C01/ttl-was-sent")
	V.Assume(V.All(ttl >= min, ttl <= m))
	ihl := V.Concretize(int(P[0] & 0xf))
	qihl := 5
	if L >= ihl*4+8+1 {
		qihl = V.Concretize(int(P[ihl*4+8] & 0xf))
	}
	idx := V.Concretize(int(ttl - min))
	pr := sink.Pkts[idx]
	V.Assert(resp.RTT == time.Duration(V.NowNs()-sink.Times[idx]), "C05/rtt-send-to-receive-same-probe")
	V.Assert(vGenuine4(P, ihl, qihl, pr, cfg.LoosenICMPSrc), "C01/genuine")
	V.Assert(resp.IP == N.Src4(P), "C01/responder")
	V.Assert(resp.IsDest == V.BytesEq(P[12:16], pr[16:20]), "C04/dest-iff-from-target")
	V.Assert(resp.RTT >= 0, "C05/rtt-nonneg")
	if resp.IsDest {
		V.Reach("accepted-dest")
	} else {
		V.Reach("accepted-hop")
	}
}

// Verif_Step_udp6_arb: the same for UDP over IPv6.
func Verif_Step_udp6_arb() {
	L := V.ParamInt("L", 96)
	d, cfg, sink, src, min, m := vSetup(true)
	P := V.Bytes("P", L)
	N.BoundArb6(P)
	V.ClockAdvance(time.Duration(V.U32("flight"))) // the reply arrives an arbitrary time after the last send
	src.Next = append([]byte(nil), P...)
	resp, err := d.ReceiveProbe(100 * time.Millisecond)
	if err != nil {
		V.Reach("rejected")
		V.Assert(common.CheckProbeRetryable("ReceiveProbe", err), "C09/retryable")
		V.Assert(resp == nil, "C09/no-result-with-error")
		return
	}
	V.Reach("accepted")
	V.Assert(resp != nil, "C09/non-nil")
	ttl := resp.TTL
	V.Assert(V.All(ttl >= min, ttl <= m), "C01/ttl-was-sent")
	V.Assume(V.All(ttl >= min, ttl <= m))
	idx := V.Concretize(int(ttl - min))
	pr := sink.Pkts[idx]
	V.Assert(resp.RTT == time.Duration(V.NowNs()-sink.Times[idx]), "C05/rtt-send-to-receive-same-probe")
	V.Assert(vGenuine6(P, pr, cfg.LoosenICMPSrc), "C01/genuine")
	V.Assert(resp.IP == N.Src6(P), "C01/responder")
	V.Assert(resp.IsDest == V.BytesEq(P[8:24], pr[24:40]), "C04/dest-iff-from-target")
	V.Assert(resp.RTT >= 0, "C05/rtt-nonneg")
	if resp.IsDest {
		V.Reach("accepted-dest")
	} else {
		V.Reach("accepted-hop")
	}
}
