package udp

import (
	"context"
	"net"
	"time"

	"github.com/DataDog/datadog-traceroute/common"
	V "github.com/DataDog/datadog-traceroute/zzverif"
	N "github.com/DataDog/datadog-traceroute/zzvnet"
)

// Verif_C14_udp: as Verif_C14_icmp for the UDP driver (IPv4).
func Verif_C14_udp() {
	local, target := N.Addr4("local"), N.Addr4("target")
	cfg := NewUDPv4(net.IP(target.AsSlice()), V.U16("dport"), 1, 2, 10*time.Millisecond, 200*time.Millisecond, false)
	cfg.srcIP, cfg.srcPort = net.IP(local.AsSlice()), V.U16("sport")
	sink, src := &N.Sink{}, &N.Source{Timed: true}
	d := newUDPDriver(cfg, sink, src)
	nrep := V.ParamInt("replies", 1)
	for i := 0; i < nrep; i++ {
		t := V.U8("replyTTL")
		V.Assume(t >= 1)
		V.Assume(t <= 2)
		la, ta := local.As4(), target.As4()
		quoted := N.IP4Header(la[:], ta[:], 17, 16)
		id := 41821 + uint16(t)
		quoted[4], quoted[5] = byte(id>>8), byte(id)
		quoted = append(quoted, byte(cfg.srcPort>>8), byte(cfg.srcPort), byte(cfg.TargetPort>>8), byte(cfg.TargetPort), 0, 16, 0, 0)
		src.Queue = append(src.Queue, N.ICMPError4(quoted, 11, 0, 28, 0, 0))
	}
	params := common.TracerouteParallelParams{TracerouteParams: common.TracerouteParams{MinTTL: 1, MaxTTL: 2,
		TracerouteTimeout: 200 * time.Millisecond, PollFrequency: 100 * time.Millisecond, SendDelay: 10 * time.Millisecond}}
	res, err := common.TracerouteParallel(context.Background(), d, params)
	V.Assert(err == nil, "C14/run-completes")
	for _, h := range res {
		if h != nil {
			V.Reach("hop-found")
		}
	}
	V.Reach("end")
}
