package udp

import (
	"time"

	V "github.com/DataDog/datadog-traceroute/zzverif"
	N "github.com/DataDog/datadog-traceroute/zzvnet"
)

// Verif_C11_cross_udp: two UDP runs A and B (strict source checking, as the library configures them) to the same
// target and port from the same host on different local ports (the OS hands concurrent runs different ports: each
// holds its UDP socket for the whole run). A genuine ICMP error answering one of A's probes is not a hop of B.
func Verif_C11_cross_udp() {
	v6 := V.ParamInt("v6", 0) == 1
	_, cfgA, sinkA, _, min, m := vSetup(v6)
	cfgB := NewUDPv4(cfgA.Target, cfgA.TargetPort, min, m, cfgA.Delay, cfgA.Timeout, false)
	cfgB.srcIP = cfgA.srcIP
	cfgB.srcPort = V.U16("sport-B")
	V.Assume(cfgB.srcPort != cfgA.srcPort)
	sinkB, srcB := &N.Sink{}, &N.Source{}
	dB := newUDPDriver(cfgB, sinkB, srcB)
	for t := min; ; t++ {
		V.Assert(dB.SendProbe(t) == nil, "send/no-error")
		if t == m {
			break
		}
	}
	t := V.U8("t")
	V.Assume(t >= min)
	V.Assume(t <= m)
	pr := sinkA.Pkts[V.Concretize(int(t-min))]
	var P []byte
	if v6 {
		P = N.ICMPError6(pr, 3, 0, 48)
		V.Assume(!N.Src6(P).Is4In6())
	} else {
		P = N.ICMPError4(pr, 11, 0, 28, 0, 0)
	}
	srcB.Next = P
	resp, err := dB.ReceiveProbe(100 * time.Millisecond)
	V.Assert(V.All(err != nil, resp == nil), "C11/reply-to-another-run-is-not-a-hop")
	V.Reach("end")
}
