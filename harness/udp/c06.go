package udp

import (
	V "github.com/DataDog/datadog-traceroute/zzverif"
	N "github.com/DataDog/datadog-traceroute/zzvnet"
)

// Verif_C06_udp: every UDP probe the real SendProbe emits is a well-formed packet with the probed TTL, the run's
// endpoints, correct lengths and checksums, and a per-probe identifier (IPv4: identification 41821+ttl; IPv6: payload
// length 13+ttl) that no other probe of the run shares; it is handed to the network for the target endpoint.
func Verif_C06_udp() {
	v6 := V.ParamInt("v6", 0) == 1
	_, cfg, sink, _, min, m := vSetup(v6)
	V.Assert(len(sink.Pkts) == int(m-min)+1, "C06/one-probe-per-ttl")
	i := V.U8("i")
	V.Assume(i <= m-min)
	k := V.Concretize(int(i))
	p, ttl := sink.Pkts[k], min+uint8(k)
	V.Assert(V.All(V.BytesEq(sink.Dsts[k].Addr().AsSlice(), cfg.Target), sink.Dsts[k].Port() == cfg.TargetPort), "C06/written-to-target")
	if v6 {
		V.Assert(N.WellFormed6(p, ttl, 17, cfg.srcIP, cfg.Target), "C06/ip-header")
		V.Assert(V.All(len(p) == 48+5+int(ttl), N.BE16(p[40:42]) == cfg.srcPort, N.BE16(p[42:44]) == cfg.TargetPort, int(N.BE16(p[44:46])) == len(p)-40), "C06/udp-header")
		V.Assert(N.L4CsumOK6(p), "C06/l4-checksum")
		V.Assert(int(N.BE16(p[4:6])) == 13+int(ttl), "C06/identifier")
	} else {
		V.Assert(N.WellFormed4(p, ttl, 17, cfg.srcIP, cfg.Target), "C06/ip-header")
		V.Assert(V.All(len(p) == 36, N.BE16(p[20:22]) == cfg.srcPort, N.BE16(p[22:24]) == cfg.TargetPort, N.BE16(p[24:26]) == 16), "C06/udp-header")
		V.Assert(N.L4CsumOK4(p), "C06/l4-checksum")
		V.Assert(N.BE16(p[4:6]) == 41821+uint16(ttl), "C06/identifier")
	}
	if m > min {
		a, b := sink.Pkts[0], sink.Pkts[1]
		V.Assert(!V.BytesEq(a[4:6], b[4:6]), "C06/unique-id")
		V.Assert(V.All(V.BytesEq(a[12:16], b[12:16]), sink.Dsts[0] == sink.Dsts[1]), "C06/constant-flow")
	}
	V.Reach("end")
}
