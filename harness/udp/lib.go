package udp

import (
	"net"
	"time"

	V "github.com/DataDog/datadog-traceroute/zzverif"
	N "github.com/DataDog/datadog-traceroute/zzvnet"
)

// vSetup builds the real UDP driver over a symbolic configuration and sends probes min..m with the real SendProbe.
// Params: W (window), loosen (0/1), min (optional concrete first TTL; needed for IPv6 whose payload length depends on the TTL).
func vSetup(v6 bool) (d *udpDriver, cfg *UDPv4, sink *N.Sink, src *N.Source, min, m uint8) {
	W := uint8(V.ParamInt("W", 2))
	var local, target net.IP
	if v6 {
		la, ta := N.Addr6("local"), N.Addr6("target")
		V.Assume(!la.Is4In6())
		V.Assume(!ta.Is4In6())
		local, target = la.AsSlice(), ta.AsSlice()
	} else {
		local, target = N.Addr4("local").AsSlice(), N.Addr4("target").AsSlice()
	}
	if pm := V.ParamInt("min", 0); pm != 0 {
		min = uint8(pm)
	} else {
		min = V.U8("min")
	}
	max := V.U8("max")
	V.Assume(min >= 1)
	V.Assume(min <= max)
	V.Assume(max-min <= W-1)
	cfg = NewUDPv4(target, V.U16("dport"), min, max, 10*time.Millisecond, time.Second, false)
	cfg.srcIP = local
	cfg.srcPort = V.U16("sport")
	cfg.LoosenICMPSrc = V.ParamInt("loosen", 0) == 1
	sink, src = &N.Sink{Takes: V.ParamInt("writeTakes", 0) == 1}, &N.Source{}
	d = newUDPDriver(cfg, sink, src)
	m = V.U8("m")
	V.Assume(m >= min)
	V.Assume(m <= max)
	for t := min; ; t++ {
		err := d.SendProbe(t)
		V.Assert(err == nil, "send/no-error")
		V.ClockAdvance(time.Duration(V.U32("gap")))
		if t == m {
			break
		}
	}
	return
}

// vGenuine4: P is an ICMP error (time exceeded or destination unreachable) quoting probe pr's destination
// address and port, IP identification, and - unless relaxed - source address and port. IHLs are concrete.
func vGenuine4(p []byte, ihl, qihl int, pr []byte, loosen bool) bool {
	o := ihl * 4
	if qihl < 5 || len(p) < o+8+qihl*4+8 {
		return false // the quote does not hold an IPv4 header plus 8 transport bytes
	}
	q := p[o+8:]
	u := q[qihl*4:]
	base := V.All(p[0]>>4 == 4, p[9] == 1, V.Any(p[o] == 11, p[o] == 3),
		V.BytesEq(q[16:20], pr[16:20]), V.BytesEq(u[2:4], pr[22:24]), V.BytesEq(q[4:6], pr[4:6]))
	if loosen {
		return base
	}
	return V.All(base, V.BytesEq(q[12:16], pr[12:16]), V.BytesEq(u[0:2], pr[20:22]))
}

// vGenuine6: ICMPv6 error (time exceeded 3, destination unreachable 1) quoting pr's destination, port, payload
// length (the per-probe identifier for UDP/IPv6) and - unless relaxed - source address and port.
func vGenuine6(p []byte, pr []byte, loosen bool) bool {
	if len(p) < 96 {
		return false
	}
	q := p[48:]
	u := q[40:]
	base := V.All(p[0]>>4 == 6, p[6] == 58, V.Any(p[40] == 3, p[40] == 1),
		V.BytesEq(q[24:40], pr[24:40]), V.BytesEq(u[2:4], pr[42:44]), V.BytesEq(q[4:6], pr[4:6]), q[6] == 17)
	if loosen {
		return base
	}
	return V.All(base, V.BytesEq(q[8:24], pr[8:24]), V.BytesEq(u[0:2], pr[40:42]))
}
