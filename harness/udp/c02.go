package udp

import (
	"time"

	V "github.com/DataDog/datadog-traceroute/zzverif"
	N "github.com/DataDog/datadog-traceroute/zzvnet"
)

// vTemplate4 builds an ICMP error answering probe pr the way a router does: fresh outer header from a
// symbolic responder, ICMP type/code chosen by the caller, then the quoted probe (quoteLen bytes of it) with the
// fields a device may rewrite (TTL, header checksum, TOS) replaced by fresh symbols. Outer options: optLen bytes of NOPs+EOL.
func vTemplate4(pr []byte, icmpType, icmpCode uint8, quoteLen int, extra int) []byte {
	resp := V.Bytes("responder", 4)
	free := V.Bytes("outerfree", 8) // tos, id(2), flags/frag(2), ttl, checksum(2)
	total := 20 + 8 + quoteLen + extra
	p := make([]byte, 0, total)
	p = append(p, 0x45, free[0], byte(total>>8), byte(total), free[1], free[2], 0, 0, free[5], 1, free[6], free[7])
	p = append(p, resp...)
	p = append(p, pr[12:16]...) // to the prober
	icmpFree := V.Bytes("icmpfree", 6)
	p = append(p, icmpType, icmpCode, icmpFree[0], icmpFree[1], icmpFree[2], icmpFree[3], icmpFree[4], icmpFree[5])
	q := append([]byte(nil), pr[:quoteLen]...)
	qf := V.Bytes("quotedfree", 4)
	q[1] = qf[0]  // TOS may be rewritten
	q[8] = qf[1]  // TTL is 0 or 1 when it expires
	q[10] = qf[2] // header checksum follows
	q[11] = qf[3]
	p = append(p, q...)
	if extra > 0 {
		p = append(p, V.Bytes("extension", extra)...)
	}
	return p
}

// Verif_C02_udp4: every time-exceeded / destination-unreachable answer to the probe with TTL t is reported as hop t.
func Verif_C02_udp4() {
	d, cfg, sink, src, min, m := vSetup(false)
	t := V.U8("t")
	V.Assume(t >= min)
	V.Assume(t <= m)
	pr := sink.Pkts[V.Concretize(int(t-min))]
	form := V.ParamInt("form", 0)
	var P []byte
	switch form {
	case 0: // time exceeded, 28-byte quote
		P = vTemplate4(pr, 11, 0, 28, 0)
	case 1: // time exceeded, full quote
		P = vTemplate4(pr, 11, 0, len(pr), 0)
	case 2: // destination unreachable, any code
		P = vTemplate4(pr, 3, V.U8("code"), 28, 0)
	case 3: // full quote padded to 128 bytes + 8-byte RFC 4884 extension
		P = vTemplate4(pr, 11, 0, len(pr), 128-len(pr)+8)
	}
	if cfg.LoosenICMPSrc {
		// NAT rewrote the quoted source address and port
		nat := V.Bytes("nat", 6)
		copy(P[28+12:28+16], nat[0:4])
		copy(P[28+20:28+22], nat[4:6])
	}
	src.Next = P
	resp, err := d.ReceiveProbe(100 * time.Millisecond)
	V.Assert(err == nil, "C02/accepted")
	if err != nil {
		return
	}
	V.Reach("accepted")
	V.Assert(resp.TTL == t, "C02/ttl")
	V.Assert(resp.IP == N.Src4(P), "C02/responder")
}
