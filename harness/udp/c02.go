package udp

import (
	"time"

	V "github.com/DataDog/datadog-traceroute/zzverif"
	N "github.com/DataDog/datadog-traceroute/zzvnet"
)

// Verif_C02_udp4: every time-exceeded / destination-unreachable answer to the probe with TTL t is reported as hop t.
func Verif_C02_udp4() {
	d, cfg, sink, src, min, m := vSetup(false)
	t := V.U8("t")
	V.Assume(t >= min)
	V.Assume(t <= m)
	pr := sink.Pkts[V.Concretize(int(t-min))]
	form := V.ParamInt("form", 0)
	var P []byte
	switch form {
	case 0: // time exceeded, 28-byte quote
		P = N.ICMPError4(pr, 11, 0, 28, 0, 0)
	case 1: // time exceeded, full quote
		P = N.ICMPError4(pr, 11, 0, len(pr), 0, 0)
	case 2: // destination unreachable, any code
		P = N.ICMPError4(pr, 3, V.U8("code"), 28, 0, 0)
	case 3: // full quote padded to 128 bytes + 8-byte RFC 4884 extension
		P = N.ICMPError4(pr, 11, 0, len(pr), 128-len(pr)+8, 0)
	case 4: // outer header with options
		P = N.ICMPError4(pr, 11, 0, 28, 0, 1)
	}
	if cfg.LoosenICMPSrc {
		// NAT rewrote the quoted source address and port
		nat := V.Bytes("nat", 6)
		o := int(P[0]&0xf)*4 + 8
		copy(P[o+12:o+16], nat[0:4])
		copy(P[o+20:o+22], nat[4:6])
	}
	N.Noise(src, d.ReceiveProbe)
	src.Next = P
	resp, err := d.ReceiveProbe(100 * time.Millisecond)
	V.Assert(err == nil, "C02/accepted")
	if err != nil {
		return
	}
	V.Reach("accepted")
	V.Assert(resp.TTL == t, "C02/ttl")
	V.Assert(resp.IP == N.Src4(P), "C02/responder")
}

// Verif_C02_udp6: ICMPv6 time-exceeded / destination-unreachable answers over IPv6.
func Verif_C02_udp6() {
	d, cfg, sink, src, min, m := vSetup(true)
	t := V.U8("t")
	V.Assume(t >= min)
	V.Assume(t <= m)
	pr := sink.Pkts[V.Concretize(int(t-min))]
	var P []byte
	switch V.ParamInt("form", 0) {
	case 0: // hop limit exceeded, 48-byte quote (header + UDP header)
		P = N.ICMPError6(pr, 3, 0, 48)
	case 1: // full quote
		P = N.ICMPError6(pr, 3, 0, len(pr))
	case 2: // destination unreachable, any code
		P = N.ICMPError6(pr, 1, V.U8("code"), 48)
	}
	if cfg.LoosenICMPSrc {
		nat := V.Bytes("nat", 18)
		copy(P[48+8:48+24], nat[0:16])
		copy(P[48+40:48+42], nat[16:18])
		V.Assume(!N.Src6(P[48:]).Is4In6())
	}
	V.Assume(!N.Src6(P).Is4In6())
	N.Noise(src, d.ReceiveProbe)
	src.Next = P
	resp, err := d.ReceiveProbe(100 * time.Millisecond)
	V.Assert(err == nil, "C02/accepted")
	if err != nil {
		return
	}
	V.Reach("accepted")
	V.Assert(resp.TTL == t, "C02/ttl")
	V.Assert(resp.IP == N.Src6(P), "C02/responder")
}
