package udp

import (
	"errors"
	"net"
	"net/netip"
	"time"

	"github.com/DataDog/datadog-traceroute/common"
	"github.com/DataDog/datadog-traceroute/packets"
	V "github.com/DataDog/datadog-traceroute/zzverif"
	N "github.com/DataDog/datadog-traceroute/zzvnet"
)

// Verif_C10_udp: the real (*UDPv4).Traceroute, whole, over model handles (seams at LocalAddrForHost and
// NewSourceSink) with one symbolic fault: which operation fails (handle construction, filter, deadline, k-th send,
// k-th read, zero-length read) or none. Decides C10 (no partial result, cause preserved, every handle closed exactly
// once and not used afterwards, no goroutine left) and C06(d) (reported endpoints = endpoints on the wire).
func Verif_C10_udp() {
	src, sink := &N.Source{Timed: true}, &N.Sink{FailErr: N.ErrInjected}
	local := &net.UDPAddr{IP: net.IP{192, 0, 2, 10}, Port: 40000 + V.ParamInt("portoff", 7)}
	conn := &N.Conn{Local: local}
	fault := V.U8("fault")
	V.Assume(fault <= 7)
	f := V.Concretize(int(fault))
	k := 1
	if f >= 4 {
		kk := V.U8("k")
		V.Assume(kk >= 1)
		V.Assume(kk <= 2)
		k = V.Concretize(int(kk))
	}
	if V.Bool("closeFails") {
		// closing a handle may itself report an error; the other handles must still be released
		src.CloseErr, sink.CloseErr = N.ErrInjected, N.ErrInjected
	}
	handleMade := false
	common.VerifHookLocalAddrForHost = func(destIP net.IP, destPort uint16) (*net.UDPAddr, net.Conn, error) {
		if f == 1 {
			return nil, nil, N.ErrInjected
		}
		return local, conn, nil
	}
	packets.VerifHookNewSourceSink = func(addr netip.Addr, useDriver bool) (packets.SourceSinkHandle, error) {
		if f == 2 {
			return packets.SourceSinkHandle{}, N.ErrInjected
		}
		handleMade = true
		return packets.SourceSinkHandle{Source: src, Sink: sink}, nil
	}
	switch f {
	case 3:
		src.FilterFailAt = 1
	case 4:
		src.DeadlineFailAt = k
	case 5:
		sink.FailAt = k
	case 6:
		src.ReadFailAt = k
	case 7:
		src.ZeroAt = k
	}
	u := NewUDPv4(net.IPv4(198, 51, 100, 1), 33434, 1, 2, 10*time.Millisecond, 200*time.Millisecond, false)
	run, err := u.Traceroute()
	// did the fault actually happen?
	hit := f == 1 || f == 2 || (f == 3) || (f == 4 && src.Deadlines >= k) || (f == 5 && sink.Writes >= k) || (f == 6 && src.Reads >= k) || (f == 7 && src.Reads >= k)
	if f != 0 && hit {
		V.Reach("fault-hit")
		V.Assert(V.All(err != nil, run == nil), "C10/error-and-no-partial-result")
		if f != 7 {
			V.Assert(errors.Is(err, N.ErrInjected), "C10/cause-preserved")
		}
	} else {
		V.Reach("no-fault")
		V.Assert(V.All(err == nil, run != nil), "C10/success-without-fault")
		if run != nil {
			V.Assert(len(run.Hops) == 2, "C03/silent-network-full-length")
			V.Assert(V.All(run.Source.IPAddress.Equal(local.IP), int(run.Source.Port) == local.Port,
				run.Destination.IPAddress.Equal(net.IPv4(198, 51, 100, 1)), run.Destination.Port == 33434), "C06/reported-endpoints")
			for _, p := range sink.Pkts {
				V.Assert(V.All(net.IP(p[12:16]).Equal(run.Source.IPAddress), net.IP(p[16:20]).Equal(run.Destination.IPAddress),
					N.BE16(p[20:22]) == run.Source.Port, N.BE16(p[22:24]) == run.Destination.Port), "C06/reported-endpoints-are-on-the-wire")
			}
		}
	}
	if f != 1 {
		V.Assert(conn.Closed == 1, "C10/local-addr-socket-closed-once")
	}
	if handleMade {
		V.Assert(V.All(src.Closed == 1, sink.Closed == 1), "C10/handles-closed-exactly-once")
		V.Assert(V.All(!src.UsedAfterClose, !sink.UsedAfterClose), "C10/no-use-after-close")
	}
	V.Assert(V.LiveGoroutines() == 0, "C10/no-goroutine-outlives-the-call")
}
