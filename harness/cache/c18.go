package cache

import (
	"errors"
	"time"

	V "github.com/DataDog/datadog-traceroute/zzverif"
)

// Verif_C18_cache: sequences of GetWithExpiration on one key over the real go-cache and the virtual clock: a stored
// success is returned without invoking the callback while it has not expired, an error is never stored, after expiry
// the callback runs again.
func Verif_C18_cache() {
	Cache.Flush() // the native replay runs several witnesses in one process: start from an empty cache, as the symbolic run does
	ops := V.ParamInt("ops", 3)
	ttl := time.Duration(V.ParamInt("ttlMs", 1000)) * time.Millisecond
	key := "k"
	stored := false
	var storedVal int
	var storedAt int64
	for i := 0; i < ops; i++ {
		V.ClockAdvance(time.Duration(V.U32("gap"))) // 0..4.29 s in ns (no multiplication: bvmul by 1000 came back unknown at ops=4)
		invoked := 0
		fail := V.Bool("cbFails")
		val := V.Int("value")
		got, err := GetWithExpiration(key, func() (int, error) {
			invoked++
			if fail {
				return 0, errors.New("lookup failed")
			}
			return val, nil
		}, ttl)
		now := V.NowNs()
		fresh := stored && now < storedAt+int64(ttl)
		expired := stored && now > storedAt+int64(ttl)
		if fresh {
			V.Reach("hit")
			V.Assert(V.All(invoked == 0, err == nil, got == storedVal), "C18/stored-success-returned-without-requery")
		}
		if !stored || expired {
			V.Reach("miss")
			V.Assert(invoked == 1, "C18/miss-or-expired-requeries")
			if fail {
				V.Assert(err != nil, "C18/error-returned")
			} else {
				V.Assert(V.All(err == nil, got == val), "C18/fresh-value-returned")
			}
		}
		if invoked == 1 {
			if fail {
				// failures are never cached: the previous state (nothing / expired entry) stays
				if expired {
					stored = false
				}
			} else {
				stored, storedVal, storedAt = true, val, now
			}
		}
	}
	V.Reach("end")
}
