package publicip

import (
	"context"
	"errors"
	"io"
	"net/http"
	"time"

	"github.com/cenkalti/backoff/v5"
	V "github.com/DataDog/datadog-traceroute/zzverif"
)

// vBody is a model response body.
type vBody struct {
	data   []byte
	pos    int
	closed int
	failAt bool
}

func (b *vBody) Read(p []byte) (int, error) {
	if b.failAt {
		return 0, errors.New("body read failed")
	}
	if b.pos >= len(b.data) {
		return 0, io.EOF
	}
	n := copy(p, b.data[b.pos:])
	b.pos += n
	return n, nil
}
func (b *vBody) Close() error { b.closed++; return nil }

// vHTTP is the script of the model HTTP client: per request a symbolic outcome.
type vHTTP struct {
	urls     []string
	kinds    []uint8
	maxCalls int
}

var vClient vHTTP

// vClientDo models (*http.Client).Do (redirected here by the engine). Contract of the real call: it returns no later
// than the deadline it was given through the request context or the client's Timeout; without either it may never return.
func vClientDo(c *http.Client, req *http.Request) (*http.Response, error) {
	V.Yield()
	_, hasDL := req.Context().Deadline()
	V.AssertKF(V.Any(hasDL, c.Timeout > 0), "C08/http-call-has-deadline", "KF-C08-publicip-no-deadline", true)
	vClient.urls = append(vClient.urls, req.URL.String())
	if vClient.maxCalls != 0 && len(vClient.urls) > vClient.maxCalls {
		vClient.kinds = append(vClient.kinds, 4)
		V.Sleep(500 * time.Millisecond)
		return nil, errors.New("transport error (beyond the exploration bound)")
	}
	k := V.U8("response")
	V.Assume(int(k) <= V.ParamInt("maxKind", 4)) // maxKind=3 excludes transport errors (no retry/back-off paths)
	kk := uint8(V.Concretize(int(k)))
	vClient.kinds = append(vClient.kinds, kk)
	lat := V.U8("latency") // the answer takes 0 s, 1 s or (bounded by the request deadline) 2.5 s
	V.Assume(lat <= 2)
	d := []time.Duration{0, time.Second, 2500 * time.Millisecond}[V.Concretize(int(lat))]
	if dl, ok := req.Context().Deadline(); ok && time.Now().Add(d).After(dl) {
		// contract of the real call: it gives up at the deadline it was handed
		V.Sleep(time.Until(dl))
		vClient.kinds[len(vClient.kinds)-1] = 4 // seen by the caller as a transport error
		return nil, context.DeadlineExceeded
	}
	V.Sleep(d)
	switch kk {
	case 0: // 200 with a valid address
		return &http.Response{StatusCode: 200, Status: "200 OK", Body: &vBody{data: []byte(" 203.0.113.9\n")}}, nil
	case 1: // 200 with garbage
		return &http.Response{StatusCode: 200, Status: "200 OK", Body: &vBody{data: []byte("<html>not an address</html>")}}, nil
	case 2: // client error: any status 400..499, whose body even is a well-formed address — final all the same
		st := V.U8("status4xx")
		V.Assume(st < 100)
		return &http.Response{StatusCode: 400 + int(st), Status: "4xx", Body: &vBody{data: []byte("203.0.113.77")}}, nil
	case 3: // server error (any status 500..599) with a valid address in the body (accepted by the code as it stands)
		st := V.U8("status5xx")
		V.Assume(st < 100)
		return &http.Response{StatusCode: 500 + int(st), Status: "5xx", Body: &vBody{data: []byte("203.0.113.9")}}, nil
	}
	return nil, errors.New("transport error")
}

// Verif_C18_publicip: GetPublicIP over the model client: providers are asked in list order, iteration stops at the
// first valid address, a client error or an invalid body ends that provider after one request, transport errors are
// retried inside the provider's time budget; every HTTP call carries a deadline (C08).
func Verif_C18_publicip() {
	vClient = vHTTP{maxCalls: V.ParamInt("maxCalls", 4)}
	old := ipCheckers
	ipCheckers = ipCheckers[:V.ParamInt("providers", 2)]
	defer func() { ipCheckers = old }()
	bo := backoff.NewExponentialBackOff()
	ctx, cancel := context.WithTimeout(context.Background(), 30*time.Second)
	defer cancel()
	start := V.NowNs()
	ip, err := GetPublicIP(ctx, &http.Client{}, bo)
	elapsed := V.NowNs() - start
	// reference: walk the script
	prov := 0
	for i, u := range vClient.urls {
		V.Assert(prov < len(ipCheckers), "C18/no-request-after-the-last-provider")
		if prov >= len(ipCheckers) {
			return
		}
		V.Assert(u == ipCheckers[prov], "C18/providers-asked-in-order")
		switch vClient.kinds[i] {
		case 0, 3:
			V.Assert(V.All(i == len(vClient.urls)-1, err == nil, ip != nil), "C18/stops-at-first-valid-address")
			V.Reach("found")
			return
		case 1, 2:
			prov++ // final for this provider after one request
		default:
			// transport error: retried for the same provider until its budget is over, then the next provider
			if i+1 < len(vClient.urls) && vClient.urls[i+1] != u {
				prov++
			}
		}
	}
	V.Reach("not-found")
	V.Assert(V.All(err != nil, ip == nil), "C18/error-when-no-provider-answers")
	V.Assert(elapsed <= int64(len(ipCheckers))*int64(ipCheckerCallTimeout+5*time.Second), "C08/publicip-bounded")
}
