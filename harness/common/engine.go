package common

import (
	"context"
	"errors"
	"net/netip"
	"time"

	V "github.com/DataDog/datadog-traceroute/zzverif"
)

// vDriver is a model TracerouteDriver: SendProbe records (ttl, virtual time) and may fail at a chosen call;
// ReceiveProbe takes a symbolic time in [0, timeout] and returns, per call, a symbolic choice of
// "nothing yet" (retryable) / a reply for one of the TTLs already sent (destination or not) / a fatal error.
type vDriver struct {
	parallel   bool
	min, max   uint8
	sent       []uint8
	sentAt     []int64
	recvStart  []int64
	accepted   []ProbeResponse // replies handed to the engine without error, in order
	acceptedAt []int64
	maxReplies int
	replies    int
	recvCalls  int
	maxRecv    int
	sendFailAt int
	recvFailAt int
	sendErr    error
	recvErr    error
	concurrent int // number of calls in flight (for the no-overlap check of the serial contract)
	lastRecvEnd int64 // virtual time at which the latest ReceiveProbe call returned
	maxJunk     int   // unrelated / malformed packets the network may deliver (each ends a poll early with a retryable error)
	junk        int
}

var errVSend = errors.New("model send failure")
var errVRecv = errors.New("model receive failure")

func (d *vDriver) GetDriverInfo() TracerouteDriverInfo {
	return TracerouteDriverInfo{SupportsParallel: d.parallel}
}

func (d *vDriver) SendProbe(ttl uint8) error {
	V.Yield()
	d.sent = append(d.sent, ttl)
	d.sentAt = append(d.sentAt, V.NowNs())
	if d.sendFailAt != 0 && len(d.sent) == d.sendFailAt {
		return errVSend
	}
	return nil
}

func (d *vDriver) ReceiveProbe(timeout time.Duration) (*ProbeResponse, error) {
	V.Yield()
	defer func() { d.lastRecvEnd = V.NowNs() }()
	d.recvCalls++
	d.recvStart = append(d.recvStart, V.NowNs())
	if d.recvFailAt != 0 && d.recvCalls == d.recvFailAt {
		// the failing read reports its error at once, mid-interval, or only when the poll interval is over
		// (so it may come back after the run's deadline has passed)
		w := V.U8("failAfter")
		V.Assume(w <= 2)
		V.Sleep([]time.Duration{0, timeout / 2, timeout}[V.Concretize(int(w))])
		return nil, errVRecv
	}
	if d.maxRecv != 0 && d.recvCalls > d.maxRecv {
		// beyond the exploration bound the network stays silent
		V.Sleep(timeout)
		return nil, &ReceiveProbeNoPktError{Err: errors.New("silence")}
	}
	if d.junk < d.maxJunk && V.Bool("junk") {
		// an unrelated packet: the poll ends at once or mid-interval with a retryable "bad packet" error
		d.junk++
		if V.Bool("junkMidInterval") {
			V.Sleep(timeout / 2)
		}
		return nil, &BadPacketError{Err: errors.New("unrelated packet")}
	}
	if d.replies < d.maxReplies && len(d.sent) > 0 && V.Bool("reply") {
		// a reply to one of the probes sent so far arrives after a symbolic part of the poll interval
		var wait time.Duration
		if V.ParamInt("waitSet", 0) == 1 {
			// coarse delays: immediately, mid-interval, at the end of the poll interval
			w := V.U8("waitChoice")
			V.Assume(w <= 2)
			wait = []time.Duration{0, timeout / 2, timeout}[V.Concretize(int(w))]
		} else {
			wait = time.Duration(V.U32("wait"))
			V.Assume(wait <= timeout)
		}
		V.Sleep(wait)
		k := V.U8("which")
		V.Assume(int(k) < len(d.sent))
		ttl := d.sent[V.Concretize(int(k))]
		// the RTT is whatever the driver reports (the engine is generic in its driver): an arbitrary value, not tied
		// to the model's clock - a later reply may carry a smaller RTT than an earlier one
		resp := &ProbeResponse{TTL: ttl, IsDest: V.Bool("isDest"), IP: netip.AddrFrom4([4]byte{10, 0, 0, ttl}), RTT: time.Duration(V.U32("rtt"))}
		d.replies++
		d.accepted = append(d.accepted, *resp)
		d.acceptedAt = append(d.acceptedAt, V.NowNs())
		return resp, nil
	}
	V.Sleep(timeout)
	return nil, &ReceiveProbeNoPktError{Err: errors.New("no packet before the read deadline")}
}

// vRefFold is the reference merge: earliest accepted reply per TTL, except that a destination reply replaces a
// non-destination one; then clip at the lowest destination TTL.
func vRefFold(min, max uint8, accepted []ProbeResponse) []*ProbeResponse {
	table := make([]*ProbeResponse, int(max)+1)
	for i := range accepted {
		r := &accepted[i]
		prev := table[r.TTL]
		if prev == nil || (!prev.IsDest && r.IsDest) {
			table[r.TTL] = r
		}
	}
	last := int(max)
	for t := int(min); t <= int(max); t++ {
		if table[t] != nil && table[t].IsDest {
			last = t
			break
		}
	}
	return table[min : last+1]
}

func vParams(min, max uint8) TracerouteParams {
	return TracerouteParams{MinTTL: min, MaxTTL: max,
		TracerouteTimeout: time.Duration(V.ParamInt("timeoutPolls", 2)) * 100 * time.Millisecond,
		PollFrequency:     100 * time.Millisecond,
		SendDelay:         time.Duration(V.ParamInt("sendDelayMs", 10)) * time.Millisecond}
}

func vSameHop(a, b *ProbeResponse) bool {
	if a == nil || b == nil {
		return a == nil && b == nil
	}
	return V.All(a.TTL == b.TTL, a.IsDest == b.IsDest, a.IP == b.IP, a.RTT == b.RTT)
}

// Verif_Engine_parallel runs the real TracerouteParallel (real errgroup, real context plumbing on the context
// model) over the model driver, for every schedule of its goroutines and every reply sequence inside the bounds.
// Decides C07 (merge = reference fold of the accepted replies), C03 (shape), C06 (one probe per TTL, increasing,
// paced, none after the destination was merged), C08 (returns by MaxTimeout + one poll; no receive starts after the deadline).
func Verif_Engine_parallel() {
	min := uint8(V.ParamInt("min", 1))
	max := min + uint8(V.ParamInt("W", 2)) - 1
	d := &vDriver{parallel: true, min: min, max: max, maxReplies: V.ParamInt("replies", 2), maxRecv: V.ParamInt("maxRecv", 0), maxJunk: V.ParamInt("junk", 0)}
	p := TracerouteParallelParams{TracerouteParams: vParams(min, max)}
	start := V.NowNs()
	res, err := TracerouteParallel(context.Background(), d, p)
	end := V.NowNs()
	V.Assert(err == nil, "C07/no-error")
	if err != nil {
		return
	}
	V.Reach("returned")
	// ---- C07 / C03: result = reference fold of the replies the receiver accepted ----
	ref := vRefFold(min, max, d.accepted)
	V.Assert(len(res) == len(ref), "C07/length")
	V.Assert(len(res) >= 1, "C03/never-empty")
	// C03, stated on the replies themselves (not through the reference merge): the list ends at the lowest TTL for
	// which a destination reply was accepted, or at the last TTL if none was
	endTTL := int(max)
	for i := range d.accepted {
		if d.accepted[i].IsDest && int(d.accepted[i].TTL) < endTTL {
			endTTL = int(d.accepted[i].TTL)
		}
	}
	V.Assert(len(res) == endTTL-int(min)+1, "C03/ends-at-lowest-destination-ttl")
	if len(res) == len(ref) {
		for i := range res {
			V.Assert(vSameHop(res[i], ref[i]), "C07/merge-is-reference-fold")
			if res[i] != nil {
				V.Assert(int(res[i].TTL) == int(min)+i, "C03/consecutive-ttl")
				V.Assert(V.Implies(res[i].IsDest, i == len(res)-1), "C03/only-last-is-dest")
			}
		}
	}
	// ---- C06: emission order and pacing ----
	for i, t := range d.sent {
		V.Assert(int(t) == int(min)+i, "C06/increasing-from-first-ttl-once-each")
		if i > 0 {
			V.Assert(d.sentAt[i]-d.sentAt[i-1] >= int64(p.SendDelay), "C06/paced-by-send-delay")
		}
	}
	V.Assert(len(d.sent) <= int(max-min)+1, "C06/at-most-one-per-ttl")
	// none after the destination answer was merged, one already past the cancellation test excepted
	for i := range d.accepted {
		if d.accepted[i].IsDest {
			late := 0
			for k := range d.sentAt {
				if d.sentAt[k] > d.acceptedAt[i] {
					late++
				}
			}
			V.Assert(late <= 1, "C06/none-after-destination-seen")
			break
		}
	}
	// ---- C08: bounded termination ----
	// the bound is computed from the parameters (listening timeout + one send delay per probe + one poll
	// interval), not through the code's own MaxTimeout()
	window := int64(p.TracerouteTimeout) + int64(p.SendDelay)*(int64(max)-int64(min)+1)
	bound := window + int64(p.PollFrequency)
	V.Assert(end-start <= bound, "C08/returns-within-maxtimeout-plus-one-poll")
	V.Assert(int64(p.MaxTimeout()) == window, "C08/maxtimeout-is-timeout-plus-delay-per-probe")
	deadline := start + window
	// C07: every reply that arrives before the deadline must be read — the receiver keeps polling until the
	// deadline unless no further reply could change the result (the first hop already is the destination)
	V.Assert(d.lastRecvEnd >= deadline || (len(res) == 1 && res[0] != nil && res[0].IsDest),
		"C07/receiver-listens-until-the-deadline-while-a-reply-could-change-the-result")
	for _, t := range d.recvStart {
		V.Assert(t < deadline, "C08/no-receive-starts-at-or-after-the-deadline")
	}
	V.Assert(V.LiveGoroutines() == 0, "C10/no-goroutine-outlives-the-call")
}

// Verif_Engine_serial: the real TracerouteSerial over the model driver (late replies for earlier TTLs included).
// Decides C03 (shape), C06 (order, one per TTL, pacing, nothing after the destination), C08 (per-TTL bound).
func Verif_Engine_serial() {
	min := uint8(V.ParamInt("min", 1))
	max := min + uint8(V.ParamInt("W", 2)) - 1
	d := &vDriver{parallel: false, min: min, max: max, maxReplies: V.ParamInt("replies", 2), maxJunk: V.ParamInt("junk", 0)}
	p := TracerouteSerialParams{TracerouteParams: vParams(min, max)}
	start := V.NowNs()
	res, err := TracerouteSerial(context.Background(), d, p)
	end := V.NowNs()
	V.Assert(err == nil, "C03/no-error")
	if err != nil {
		return
	}
	V.Reach("returned")
	V.Assert(len(res) >= 1, "C03/never-empty")
	V.Assert(len(res) <= int(max-min)+1, "C03/at-most-window")
	sawDest := false
	for i := range res {
		if res[i] != nil {
			V.Assert(int(res[i].TTL) == int(min)+i, "C03/consecutive-ttl")
			V.Assert(V.Implies(res[i].IsDest, i == len(res)-1), "C03/only-last-is-dest")
			if res[i].IsDest {
				sawDest = true
			}
		}
	}
	V.Assert(V.Implies(!sawDest, len(res) == int(max-min)+1), "C03/full-length-without-destination")
	endTTL := int(max)
	for i := range d.accepted {
		if d.accepted[i].IsDest && int(d.accepted[i].TTL) < endTTL {
			endTTL = int(d.accepted[i].TTL)
		}
	}
	V.Assert(len(res) == endTTL-int(min)+1, "C03/ends-at-lowest-destination-ttl")
	for i, t := range d.sent {
		V.Assert(int(t) == int(min)+i, "C06/increasing-from-first-ttl-once-each")
		if i > 0 {
			V.Assert(d.sentAt[i]-d.sentAt[i-1] >= int64(p.SendDelay), "C06/paced-by-send-delay")
		}
	}
	for i := range d.accepted {
		if d.accepted[i].IsDest {
			for k := range d.sentAt {
				V.Assert(d.sentAt[k] <= d.acceptedAt[i], "C06/none-after-destination-seen")
			}
			break
		}
	}
	n := int64(max-min) + 1
	bound := n*(int64(p.TracerouteTimeout)+int64(p.PollFrequency)) + n*int64(p.SendDelay)
	V.Assert(end-start <= bound, "C08/serial-returns-within-per-ttl-sum")
}

// Verif_Engine_cancel: the caller's context is cancelled at an arbitrary instant; the engine returns the
// cancellation error within one poll interval plus one send delay, and no goroutine is left behind.
func Verif_Engine_cancel() {
	min := uint8(V.ParamInt("min", 1))
	max := min + uint8(V.ParamInt("W", 2)) - 1
	parallel := V.ParamInt("parallel", 1) == 1
	d := &vDriver{parallel: parallel, min: min, max: max, maxReplies: V.ParamInt("replies", 0)}
	ctx, cancel := context.WithCancel(context.Background())
	at := time.Duration(V.U32("cancelAfter"))
	V.Assume(at <= 400*time.Millisecond)
	var cancelledAt int64
	go func() {
		V.Sleep(at)
		cancelledAt = V.NowNs()
		cancel()
	}()
	var err error
	var res []*ProbeResponse
	if parallel {
		res, err = TracerouteParallel(ctx, d, TracerouteParallelParams{TracerouteParams: vParams(min, max)})
	} else {
		res, err = TracerouteSerial(ctx, d, TracerouteSerialParams{TracerouteParams: vParams(min, max)})
	}
	end := V.NowNs()
	p := vParams(min, max)
	if cancelledAt != 0 {
		V.Reach("cancelled-before-return")
		// a cancellation that lands in the same instant as the return (after the engine's last look at its context) may go unreported
		V.Assert(V.Any(V.All(err != nil, res == nil), cancelledAt == end), "C08/cancellation-reported")
		V.Assert(V.Implies(err != nil, errors.Is(err, context.Canceled)), "C08/cancellation-error-is-ctx-err")
		V.Assert(end-cancelledAt <= int64(p.PollFrequency)+int64(p.SendDelay), "C08/returns-within-poll-plus-delay-of-cancel")
	} else {
		V.Reach("finished-before-cancel")
	}
}

// Verif_Engine_fail: the k-th SendProbe / ReceiveProbe fails fatally; the engine returns an error wrapping the
// cause and no partial result.
func Verif_Engine_fail() {
	min := uint8(V.ParamInt("min", 1))
	max := min + uint8(V.ParamInt("W", 2)) - 1
	parallel := V.ParamInt("parallel", 1) == 1
	d := &vDriver{parallel: parallel, min: min, max: max, maxReplies: V.ParamInt("replies", 1)}
	k := V.U8("failAt")
	V.Assume(k >= 1)
	V.Assume(k <= 3)
	sendSide := V.Bool("failSend")
	if sendSide {
		d.sendFailAt = V.Concretize(int(k))
	} else {
		d.recvFailAt = V.Concretize(int(k))
	}
	var err error
	var res []*ProbeResponse
	if parallel {
		res, err = TracerouteParallel(context.Background(), d, TracerouteParallelParams{TracerouteParams: vParams(min, max)})
	} else {
		res, err = TracerouteSerial(context.Background(), d, TracerouteSerialParams{TracerouteParams: vParams(min, max)})
	}
	failed := (sendSide && len(d.sent) >= d.sendFailAt) || (!sendSide && d.recvCalls >= d.recvFailAt)
	if failed {
		V.Reach("fault-hit")
		V.Assert(V.All(err != nil, res == nil), "C10/no-partial-result")
		if sendSide {
			V.Assert(errors.Is(err, errVSend), "C10/cause-preserved")
		} else {
			V.Assert(errors.Is(err, errVRecv), "C10/cause-preserved")
		}
	} else {
		V.Reach("fault-not-reached")
		V.Assert(err == nil, "C10/no-spurious-error")
	}
	V.Assert(V.LiveGoroutines() == 0, "C10/no-goroutine-outlives-the-call")
}
