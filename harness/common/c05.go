package common

import (
	"time"

	V "github.com/DataDog/datadog-traceroute/zzverif"
)

// Verif_C05_ms: ConvertDurationToMs is non-negative and monotone on non-negative durations up to the bound
// (param bits: durations below 2^bits ns).
func Verif_C05_ms() {
	bits := uint(V.ParamInt("bits", 36))
	d1, d2 := V.I64("d1"), V.I64("d2")
	V.Assume(d1 >= 0)
	V.Assume(d1 <= d2)
	V.Assume(d2 < int64(1)<<bits)
	m1, m2 := ConvertDurationToMs(time.Duration(d1)), ConvertDurationToMs(time.Duration(d2))
	V.Assert(m1 >= 0, "C05/ms-nonneg")
	V.Assert(m1 <= m2, "C05/ms-monotone")
	V.Reach("end")
}

// Verif_C05_ms_zero: a zero duration is 0 ms and a positive one is positive (so "0 = no answer" is unambiguous).
func Verif_C05_ms_zero() {
	d := V.I64("d")
	V.Assume(d > 0)
	V.Assume(d < int64(1)<<uint(V.ParamInt("bits", 36)))
	V.Assert(ConvertDurationToMs(0) == 0, "C05/ms-zero")
	V.Assert(ConvertDurationToMs(time.Duration(d)) > 0, "C05/ms-positive")
	V.Reach("end")
}
