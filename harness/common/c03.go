package common

import (
	"net/netip"

	V "github.com/DataDog/datadog-traceroute/zzverif"
)

// Verif_C03_clip: clipResults + ToHops on an arbitrary slot table that satisfies the engines' representation
// invariant (slot i is empty or holds a reply with TTL i, i in [min,max]): the list has one entry per TTL from
// min up to the lowest destination TTL (else max), consecutive TTLs, never empty, only the last entry can be the destination.
func Verif_C03_clip() {
	max := V.ParamInt("max", 6)
	var min uint8
	if hi := V.ParamInt("minAt", 0); hi != 0 {
		// window placed anywhere in 1..255: max = minAt-style symbolic position handled by the caller's params
		min = uint8(hi)
	} else {
		min = V.U8("min")
		V.Assume(min >= 1)
		V.Assume(int(min) <= max)
	}
	results := make([]*ProbeResponse, max+1)
	lowestDest := -1
	for i := max; i >= 1; i-- {
		if uint8(i) < min {
			continue
		}
		if V.Bool("occupied") {
			isDest := V.Bool("isDest")
			a := V.Bytes("addr", 4)
			results[i] = &ProbeResponse{TTL: uint8(i), IsDest: isDest, IP: netip.AddrFrom4([4]byte{a[0], a[1], a[2], a[3]})}
			if isDest {
				lowestDest = i
			}
		}
	}
	out := clipResults(min, results)
	last := max
	if lowestDest >= 0 {
		last = lowestDest
	}
	V.Assert(len(out) == last-int(min)+1, "C03/length")
	V.Assert(len(out) >= 1, "C03/never-empty")
	p := TracerouteParams{MinTTL: min, MaxTTL: uint8(max)}
	hops, err := ToHops(p, out)
	V.Assert(err == nil, "C03/tohops-no-error")
	if err != nil {
		return
	}
	V.Assert(len(hops) == len(out), "C03/hops-length")
	for k, h := range hops {
		V.Assert(h.TTL == int(min)+k, "C03/consecutive-ttl")
		src := results[int(min)+k]
		if src == nil {
			V.Assert(V.All(len(h.IPAddress) == 0, !h.IsDest, h.RTT == 0), "C03/empty-entry")
		} else {
			V.Assert(V.All(len(h.IPAddress) == 4, h.IsDest == src.IsDest), "C03/filled-entry")
		}
		if k < len(hops)-1 {
			V.Assert(!h.IsDest, "C03/only-last-is-dest")
		}
	}
	V.Reach("end")
}
