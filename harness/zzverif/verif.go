// Package zzverif is the harness runtime. Under the symbolic executor (symgo) the
// exported intrinsics below are intercepted by name and their bodies are not run;
// the bodies are what a native replay (go test -overlay) executes: they read the
// solver's model from the file named by VERIF_REPLAY.
package zzverif

import (
	"context"
	"encoding/hex"
	"encoding/json"
	"fmt"
	"math"
	"os"
	"strconv"
	"sync"
	"time"
)

type drawValue struct {
	Tag   string `json:"tag"`
	Kind  string `json:"kind"`
	Value string `json:"value"`
}

type replayFile struct {
	Harness string            `json:"harness"`
	Label   string            `json:"label"`
	Kind    string            `json:"kind"`
	Params  map[string]string `json:"params"`
	Draws   []drawValue       `json:"draws"`
	KFOpen  []string          `json:"kf_open"`
}

// Outcome of a native replay, read by the replay test wrapper.
type Outcome struct {
	Failed   []string
	Known    []string
	Reached  []string
	Diverged string
}

var (
	mu      sync.Mutex
	rf      *replayFile
	pos     int
	Out     Outcome
	vnow    int64 = 1_000_000_000_000
	loadErr error
)

// Load reads the replay file (native mode only).
func Load(path string) error {
	data, err := os.ReadFile(path)
	if err != nil {
		return err
	}
	var r replayFile
	if err := json.Unmarshal(data, &r); err != nil {
		return err
	}
	mu.Lock()
	rf, pos, Out = &r, 0, Outcome{}
	mu.Unlock()
	return nil
}

func Replay() *replayFile { return rf }

type assumeFailed struct{}

func next(tag, kind string) string {
	mu.Lock()
	defer mu.Unlock()
	if rf == nil {
		panic("zzverif: no replay file loaded")
	}
	if pos >= len(rf.Draws) {
		// draws beyond the model are unconstrained: zero
		return ""
	}
	d := rf.Draws[pos]
	pos++
	if d.Tag != tag || d.Kind != kind {
		Out.Diverged = fmt.Sprintf("draw %d: model has %s/%s, native asked %s/%s", pos-1, d.Tag, d.Kind, tag, kind)
		panic(assumeFailed{})
	}
	return d.Value
}

func nextInt(tag, kind string) uint64 {
	s := next(tag, kind)
	if s == "" {
		return 0
	}
	v, _ := strconv.ParseUint(s, 10, 64)
	return v
}

func U8(tag string) uint8   { return uint8(nextInt(tag, "u8")) }
func U16(tag string) uint16 { return uint16(nextInt(tag, "u16")) }
func U32(tag string) uint32 { return uint32(nextInt(tag, "u32")) }
func U64(tag string) uint64 { return nextInt(tag, "u64") }
func Int(tag string) int    { return int(int64(nextInt(tag, "int"))) }
func I64(tag string) int64  { return int64(nextInt(tag, "i64")) }
func Bool(tag string) bool  { return next(tag, "bool") == "true" }
func F64(tag string) float64 {
	s := next(tag, "f64")
	if s == "" {
		return 0
	}
	v, _ := strconv.ParseUint(s, 16, 64)
	return math.Float64frombits(v)
}
// RandU32 stands in for math/rand.Uint32 during native replays (see report.go: source rewrite through the overlay).
func RandU32() uint32 { return uint32(nextInt("rand.Uint32", "u32")) }

func Bytes(tag string, n int) []byte {
	s := next(tag, "bytes")
	b, _ := hex.DecodeString(s)
	out := make([]byte, n)
	copy(out, b)
	return out
}

// Assume ends the path (native: unwinds to the replay wrapper) when c is false.
func Assume(c bool) {
	if !c {
		panic(assumeFailed{})
	}
}

// Assert states the property.
func Assert(c bool, label string) {
	if !c {
		mu.Lock()
		Out.Failed = append(Out.Failed, label)
		mu.Unlock()
	}
}

// AssertKF is Assert with a known-finding region: a failure inside the region of an open finding is reported as known.
func AssertKF(c bool, label, kf string, inRegion bool) {
	if c {
		return
	}
	mu.Lock()
	defer mu.Unlock()
	if inRegion && rf != nil {
		for _, k := range rf.KFOpen {
			if k == kf {
				Out.Known = append(Out.Known, kf)
				return
			}
		}
	}
	Out.Failed = append(Out.Failed, label)
}

func Reach(label string) {
	mu.Lock()
	Out.Reached = append(Out.Reached, label)
	mu.Unlock()
}

func Fail(label string) {
	mu.Lock()
	Out.Failed = append(Out.Failed, label)
	mu.Unlock()
	panic(assumeFailed{})
}

func Param(name string) string {
	if rf == nil {
		return ""
	}
	return rf.Params[name]
}

func ParamInt(name string, def int) int {
	s := Param(name)
	if s == "" {
		return def
	}
	n, err := strconv.ParseInt(s, 0, 64)
	if err != nil {
		return def
	}
	return int(n)
}

// All / Any / Not combine conditions without short-circuit branches (no path forks under symgo).
func All(cs ...bool) bool {
	for _, c := range cs {
		if !c {
			return false
		}
	}
	return true
}
func Any(cs ...bool) bool {
	for _, c := range cs {
		if c {
			return true
		}
	}
	return false
}
func Implies(a, b bool) bool { return !a || b }

// BytesEq compares two byte slices of concrete length without forking.
func BytesEq(a, b []byte) bool {
	if len(a) != len(b) {
		return false
	}
	for i := range a {
		if a[i] != b[i] {
			return false
		}
	}
	return true
}

// Dump prints a value (symbolic: the term) for harness debugging.
func Dump(tag string, v any) {}

// MinF / MaxF: branch-free float minimum / maximum (operands are never NaN in the harnesses).
func MinF(a, b float64) float64 {
	if b < a {
		return b
	}
	return a
}
func MaxF(a, b float64) float64 {
	if b > a {
		return b
	}
	return a
}

var lastUUID []byte

// UUIDNew stands in for uuid.New during native replays (16 bytes from the model).
func UUIDNew() [16]byte {
	b := Bytes("uuid", 16)
	lastUUID = b
	var u [16]byte
	copy(u[:], b)
	return u
}

// LastUUID returns the bytes of the UUID most recently drawn from the uuid model.
func LastUUID() []byte { return lastUUID }

// UUIDsDiffer: the last two UUIDs drawn from the uuid model are different (symbolic only; native: always true).
func UUIDsDiffer() bool { return true }

// Symbolic reports whether the code runs under the symbolic executor.
func Symbolic() bool { return false }

// ClockAdvance advances the virtual clock. Native: the virtual clock is separate from the wall clock.
func ClockAdvance(d time.Duration) {
	mu.Lock()
	vnow += int64(d)
	mu.Unlock()
}
// Sleep parks the calling goroutine on the virtual clock (symbolic); natively it only advances the virtual clock.
func Sleep(d time.Duration) { ClockAdvance(d) }

func NowNs() int64 { mu.Lock(); defer mu.Unlock(); return vnow }
func Yield()       {}

// YieldOn is a scheduling point for an operation on the object behind ptr (write: it may change what others observe).
func YieldOn(ptr any, write bool) {}

// TimeNow / TimeSince: the virtual clock as time.Time, used by native replays (drivers' time.Now()/time.Since are
// routed here through the replay overlay).
func TimeNow() time.Time                  { return time.Unix(0, NowNs()) }
func TimeSince(t time.Time) time.Duration { return time.Duration(NowNs() - t.UnixNano()) }

// Until is time.Until on the virtual clock (the models of zzvnet use it so that they replay natively).
func Until(t time.Time) time.Duration { return time.Duration(t.UnixNano() - NowNs()) }

func LiveGoroutines() int { return 0 }

// Concretize forks the symbolic path over the feasible values of v (native: identity).
func Concretize(v int) int { return v }

// Opaque returns an uninterpreted string.
func Opaque(desc string) string { return desc }

// RunNative runs f, absorbing Assume failures; it reports a panic escaping f.
func RunNative(f func()) (panicked interface{}) {
	defer func() {
		if r := recover(); r != nil {
			if _, ok := r.(assumeFailed); ok {
				return
			}
			panicked = r
		}
	}()
	f()
	return nil
}

// ---------- models executed symbolically (plain Go) ----------

// AsAssign / IsComparable are engine intrinsics (used only by the models below).
func AsAssign(err error, target any) bool { panic("zzverif.AsAssign is symbolic-only") }
func IsComparable(v any) bool             { panic("zzverif.IsComparable is symbolic-only") }

// ErrorsIs mirrors errors.Is (go1.25) without reflection.
func ErrorsIs(err, target error) bool {
	if err == nil || target == nil {
		return err == target
	}
	return is(err, target, IsComparable(target))
}

func is(err, target error, targetComparable bool) bool {
	for {
		if targetComparable && err == target {
			return true
		}
		if x, ok := err.(interface{ Is(error) bool }); ok && x.Is(target) {
			return true
		}
		switch x := err.(type) {
		case interface{ Unwrap() error }:
			err = x.Unwrap()
			if err == nil {
				return false
			}
		case interface{ Unwrap() []error }:
			for _, err := range x.Unwrap() {
				if is(err, target, targetComparable) {
					return true
				}
			}
			return false
		default:
			return false
		}
	}
}

// ErrorsAs mirrors errors.As (go1.25) without reflection.
func ErrorsAs(err error, target any) bool {
	if err == nil {
		return false
	}
	for {
		if AsAssign(err, target) {
			return true
		}
		if x, ok := err.(interface{ As(any) bool }); ok && x.As(target) {
			return true
		}
		switch x := err.(type) {
		case interface{ Unwrap() error }:
			err = x.Unwrap()
			if err == nil {
				return false
			}
		case interface{ Unwrap() []error }:
			for _, err := range x.Unwrap() {
				if err == nil {
					continue
				}
				if ErrorsAs(err, target) {
					return true
				}
			}
			return false
		default:
			return false
		}
	}
}

// ---------- context model (symbolic mode: context.* constructors are redirected here) ----------

// DeadlineChan / TimerChan are engine intrinsics: channels driven by the virtual clock.
func DeadlineChan(atNs int64) chan struct{} { panic("zzverif.DeadlineChan is symbolic-only") }
func TimerChan(atNs int64) chan time.Time   { panic("zzverif.TimerChan is symbolic-only") }

type vctx struct {
	parent    *vctx
	done      chan struct{}
	err       error
	cause     error
	deadline  time.Time
	hasDL     bool
	cancelled bool
	children  []*vctx
}

var bgCtx = &vctx{done: nil}

func CtxBackground() context.Context { return bgCtx }

func (c *vctx) Deadline() (time.Time, bool) { return c.deadline, c.hasDL }
func (c *vctx) Value(key any) any           { return nil }

// root: cancellation propagates down a context tree, so the tree is one synchronisation object.
func (c *vctx) root() *vctx {
	for c.parent != nil {
		c = c.parent
	}
	return c
}

func (c *vctx) Done() <-chan struct{} {
	c.refresh()
	return c.done
}

func (c *vctx) Err() error {
	YieldOn(c.root(), false)
	c.refresh()
	return c.err
}

// refresh applies deadlines that have passed, root first.
func (c *vctx) refresh() {
	if c.parent != nil {
		c.parent.refresh()
	}
	if !c.cancelled && c.hasDL && !time.Now().Before(c.deadline) {
		c.cancel(context.DeadlineExceeded, nil, true)
	}
}

func (c *vctx) cancel(err, cause error, byTimer bool) {
	if c.cancelled {
		return
	}
	c.cancelled = true
	c.err = err
	if cause == nil {
		cause = err
	}
	c.cause = cause
	if !byTimer || !c.hasDL {
		closeIfOpen(c)
	}
	for _, ch := range c.children {
		ch.cancel(err, cause, false)
	}
}

func closeIfOpen(c *vctx) {
	select {
	case <-c.done:
	default:
		close(c.done)
	}
}

func newChild(parent context.Context) *vctx {
	p, ok := parent.(*vctx)
	if !ok {
		panic("zzverif: foreign context implementation")
	}
	p.refresh()
	c := &vctx{parent: p, deadline: p.deadline, hasDL: p.hasDL}
	p.children = append(p.children, c)
	return c
}

func finishChild(c *vctx) {
	if c.hasDL {
		c.done = DeadlineChan(c.deadline.UnixNano())
	} else {
		c.done = make(chan struct{})
	}
	if c.parent.cancelled {
		c.cancel(c.parent.err, c.parent.cause, false)
	}
}

func CtxWithCancel(parent context.Context) (context.Context, context.CancelFunc) {
	c := newChild(parent)
	finishChild(c)
	return c, func() { YieldOn(c.root(), true); c.cancel(context.Canceled, nil, false) }
}

func CtxWithCancelCause(parent context.Context) (context.Context, context.CancelCauseFunc) {
	c := newChild(parent)
	finishChild(c)
	return c, func(cause error) { YieldOn(c.root(), true); c.cancel(context.Canceled, cause, false) }
}

func CtxWithDeadline(parent context.Context, d time.Time) (context.Context, context.CancelFunc) {
	c := newChild(parent)
	if !c.hasDL || d.Before(c.deadline) {
		c.deadline, c.hasDL = d, true
	}
	finishChild(c)
	return c, func() { YieldOn(c.root(), true); c.cancel(context.Canceled, nil, false) }
}

func CtxWithTimeout(parent context.Context, d time.Duration) (context.Context, context.CancelFunc) {
	return CtxWithDeadline(parent, time.Now().Add(d))
}

func CtxCause(ctx context.Context) error {
	c, ok := ctx.(*vctx)
	if !ok {
		return nil
	}
	c.refresh()
	return c.cause
}

// ---------- summaries of pure library kernels (symbolic mode: redirected here) ----------
// The real functions fold the 32-bit one's-complement sum in a data-dependent loop ("while csum > 0xffff").
// Two folds are enough for every 32-bit value and a fold is the identity below 0x10000, so the loop equals
// fold(fold(csum)). The equivalence with the real loops is by reading and by arithmetic (a 32-bit value folds to at
// most 0x1fffe, which folds to at most 0xffff), not machine-checked: the real functions are unexported and the
// planned self-test harnesses were not built.

func fold16(c uint32) uint32 { return (c >> 16) + (c & 0xffff) }

// ModelFoldChecksum summarises github.com/google/gopacket.FoldChecksum.
func ModelFoldChecksum(csum uint32) uint16 { return ^uint16(fold16(fold16(csum))) }

// ModelIPv4Checksum summarises github.com/google/gopacket/layers.checksum.
func ModelIPv4Checksum(bytes []byte) uint16 {
	bytes[10] = 0
	bytes[11] = 0
	var csum uint32
	for i := 0; i < len(bytes); i += 2 {
		csum += uint32(bytes[i]) << 8
		csum += uint32(bytes[i+1])
	}
	return ^uint16(fold16(fold16(csum)))
}

// ---------- native replay driver ----------

type replayResult struct {
	Harness  string   `json:"harness"`
	Failed   []string `json:"failed"`
	Known    []string `json:"known"`
	Reached  []string `json:"reached"`
	Diverged string   `json:"diverged,omitempty"`
	Panic    string   `json:"panic,omitempty"`
	Missing  bool     `json:"missing_harness,omitempty"`
}

type testingT interface {
	Fatalf(format string, args ...any)
	Logf(format string, args ...any)
}

// ReplayAll runs every replay file named in VERIF_REPLAY_FILES against the package's harness table and
// writes <file>.out with what the native execution observed.
func ReplayAll(t testingT, table map[string]func()) {
	for _, f := range splitComma(os.Getenv("VERIF_REPLAY_FILES")) {
		if err := Load(f); err != nil {
			t.Fatalf("load %s: %v", f, err)
		}
		name := rf.Harness
		for i := len(name) - 1; i >= 0; i-- {
			if name[i] == '.' {
				name = name[i+1:]
				break
			}
		}
		res := replayResult{Harness: rf.Harness}
		h, ok := table[name]
		if !ok {
			res.Missing = true
		} else {
			if p := RunNative(h); p != nil {
				res.Panic = fmt.Sprint(p)
			}
			mu.Lock()
			res.Failed, res.Known, res.Reached, res.Diverged = Out.Failed, Out.Known, Out.Reached, Out.Diverged
			mu.Unlock()
		}
		data, _ := json.MarshalIndent(res, "", " ")
		if err := os.WriteFile(f+".out", data, 0o644); err != nil {
			t.Fatalf("write: %v", err)
		}
		t.Logf("replayed %s: failed=%v panic=%q", f, res.Failed, res.Panic)
	}
}

func splitComma(s string) []string {
	var out []string
	cur := ""
	for _, c := range s {
		if c == ',' {
			if cur != "" {
				out = append(out, cur)
			}
			cur = ""
		} else {
			cur += string(c)
		}
	}
	if cur != "" {
		out = append(out, cur)
	}
	return out
}

// ModelTcpipChecksum summarises github.com/google/gopacket/layers.tcpipChecksum (same fold argument).
func ModelTcpipChecksum(data []byte, csum uint32) uint16 {
	length := len(data) - 1
	for i := 0; i < length; i += 2 {
		csum += uint32(data[i]) << 8
		csum += uint32(data[i+1])
	}
	if len(data)%2 == 1 {
		csum += uint32(data[length]) << 8
	}
	return ^uint16(fold16(fold16(csum)))
}
