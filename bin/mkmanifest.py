#!/usr/bin/env python3
"""Writes /verif/MANIFEST.json from the table below (claimed checks) and the not_applicable list."""
import json
props = [json.loads(l) for l in open('/verif/properties.jsonl')]
ids = [p['id'] for p in props]
TECH = "bounded symbolic execution of the real go/ssa code, SMT (z3/cvc5) decides every path and assertion; models replayed natively"
NOTE = ("Trusted base: the SSA interpreter in /verif/engine (validated on every run by re-executing solver models natively through "
        "go test -overlay), z3 5.1.0 / cvc5 1.0, and the environment models listed in the evidence file (virtual clock, sync, fmt.Errorf, "
        "errors.Is/As, checksum fold summaries, model Source/Sink). Bounds are stated in evidence.coverage.bounds; nothing is claimed outside them.")
CLAIMED = {
 "C01": ("For every variant (ICMP/UDP v4+v6, TCP SYN default/Paris, SACK strict/relaxed) the real SendProbe calls followed by one real ReceiveProbe over an arbitrary packet of the listed lengths: every accepted hop is proved to be backed by a genuine reply to a probe that was sent (oracle written against the bytes that really went out), for all configurations inside the window bound. Bounded model checking: holds for every value inside the bounds, says nothing outside.", "5 C01"),
 "C02": ("Every reply form of the catalogue, with all free fields symbolic, is proved to be accepted as the hop of the probe it answers by the real matchers, for every variant, every TTL position and every sequence/ID base inside the window bound; and the capture filter each entry point installs is proved exact and proved to accept every frame its matcher accepts (the C12 jobs, evaluated under C02 too).", "5 C02"),
 "C04": ("Same exploration as C01; the destination flag of every accepted hop is proved equivalent to the protocol's proof-of-arrival form coming from the target address.", "5 C04"),
 "C09": ("Same exploration as C01 over arbitrary bytes: every outcome of ReceiveProbe is proved to be a hop, a retryable error, or the one allowed SACK abort; no Go panic is reachable inside the bounds. A rejected packet delivered before a genuine reply does not change that reply's recognition. Frame level: arbitrary Ethernet frames of every captured length through the real afPacketSource.Read / stripEthernetHeader / ReadAndParse behind the real cBPF program of each filter end in a parsed packet or a retryable error.", "5 C09"),
}
CLAIMED.update({
 "C03": ("Parts (a) and (b): the real TracerouteParallel/TracerouteSerial over a model driver for every schedule and bounded reply sequence produce a list of the stated shape that ends at the lowest TTL for which a destination reply was accepted; and the real clipResults and ToHops over an arbitrary slot table satisfying the engines' representation invariant, every occupancy/destination pattern for MaxTTL <= 5/8 and windows at 4, 128, 255: list shape (consecutive TTLs, ends at the lowest destination TTL, never empty, only the last entry is the destination) is proved. ", "5 C03"),
 "C05": ("The real drivers on a virtual clock: for every accepted hop in the C01 exploration the reported RTT is proved equal to (clock at the accepting ReceiveProbe) - (clock when that same TTL's probe was handed to the sink), hence non-negative, for arbitrary gaps between sends, writes that themselves take time, and an arbitrary flight time, and the hop is credited to the probe the reply answers (attribution obligation evaluated here too); the e2e probe returns the destination hop's RTT or 0; the ms conversion is zero at zero and positive on positive durations < 2^36 ns.", "5 C05"),
 "C06": ("Parts (a),(b): for every variant the bytes the real SendProbe hands to the sink are proved well formed (version, lengths, TTL/hop limit = probed TTL, protocol, run-constant endpoints, IPv4 header and L4 checksums, flags, identifier formula) and written to the target; the identifiers of two probes of a run differ - for every TTL position and every identifier base. Part (c): the real engines over a model driver send at most one probe per TTL in increasing order, spaced by SendDelay on the virtual clock, and at most one after a destination reply was accepted. Part (d): the endpoints each protocol entry point reports equal those carried by every probe it emitted.", "5 C06"),
 "C11": ("Part (a): from any 32-bit allocator state three consecutive AllocPacketID ranges of arbitrary sizes are proved pairwise disjoint modulo 2^16 and consecutive echo identifiers distinct. Part (b): for each protocol two runs to the same target with the identities the code relies on (echo ids, local ports, sequence windows): every catalogue reply to a probe of one run is proved to be rejected by the other run's real matcher, with a retryable error (another run's packet never aborts this run).", "5 C11"),
 "C16": ("The real Results.Normalize on symbolic documents: reachable iff address, hop-count statistics ordered and within run lengths, e2e statistics (sent/received/loss exact; min <= avg <= max; 0 <= jitter <= max-min) decided in IEEE-754 semantics by cvc5 for n=2 (quick) / 3 (thorough) samples; identifier path uuid->base64 injective (per 3-byte group). JSON round trip is outside (reflection).", "5 C16"),
 "C17": ("The real Results.RemovePrivateHops (and net.IP.IsPrivate/To4) on symbolic documents against an independent RFC 1918 / RFC 4193 predicate over 4-byte, 16-byte and IPv4-mapped addresses: private hops keep only TTL and position, other hops are the same objects untouched, counts unchanged; the HTTP flag parses as a boolean; the real RunTraceroute over model runs and a model resolver redacts after enrichment and normalisation (no name, RTT or flag of a private hop survives).", "5 C17"),
 "C19": ("The real runTracerouteOnce with MinTTL/MaxTTL as unconstrained 64-bit symbols for every protocol/method/target/port combination listed: either an error, or the runner (observed at its entry through a seam) received exactly the requested TTL bounds, address, port and kind, with 1 <= min <= max <= 255; HTTP query values pass through unchanged; no panic in driver construction and first/last probe at the extremes (MaxTTL 1 and 255); the whole request path through the real RunTraceroute at the port boundaries (-65536, -1, 0, 1, 443, 65535, 65536, 70000); the real engines at MaxTTL 255 emit exactly the requested TTLs.", "5 C19"),
 "C20": ("Parts (a),(d): the real performTCPFallback over recording closures and symbolic error chains (depth <= 3, %w / Join / custom Unwrap / %v): sack never falls back, prefer_sack falls back exactly when a NotSupportedError is reachable in the chain and otherwise reports the SACK error wrapped, syn never runs SACK; e2e probes use SYN on a single TTL. Where NotSupportedError originates: the real sack matcher turns an ACK on the probed connection without SACK blocks into NotSupportedError and nothing else; the real ReadHandshake classifies a SYN-ACK without SACK-permitted as NotSupportedError (reachable through errors.As from the returned error) and silence/noise as a plain error; the entry points classify dial failure likewise (C10 jobs).", "5 C20"),
})
CLAIMED.update({
 "C07": ("The real TracerouteParallel (real errgroup, context plumbing on a context model) over a model driver, explored for every interleaving of its goroutines at scheduling points and every bounded reply sequence: the returned list is proved equal to the reference fold (first reply per TTL, destination overrides, clipped at the lowest destination) of the replies the receiver accepted, and the receiver keeps polling until the deadline as long as a later reply could still change the result.", "5 C07"),
 "C08": ("Parts (a),(b): same exploration on a virtual discrete-event clock: the parallel engine returns within (listening timeout + one send delay per probe, computed from the parameters) + one poll and never starts a receive at or after its deadline; the serial engine within the per-TTL sum; a cancellation at any instant is reported with ctx.Err() within one poll + one send delay. ReadHandshake under a flood of unrelated packets returns within its 500 ms window; bursts of unrelated packets do not extend the engines' bounds; a reverse-DNS batch with stalling resolvers takes one lookup timeout and every DNS/HTTP call carries a deadline (C18's jobs evaluated here too); the dial timeout is not covered.", "5 C08"),
})
CLAIMED.update({
 "C15": ("The real runTracerouteMulti with the run function (package variable) replaced by a model that succeeds or fails per call, explored over completion orders of the concurrent runs/probes (bounded preemptions): success exactly when everything succeeded, with exactly the requested numbers of runs and RTT samples, none lost or duplicated (multiset equality), zeros for unanswered probes; on any failure no result and an error for which errors.Is holds for every individual failure; a failing public-IP fetcher changes neither case; no goroutine outlives the call.", "5 C15"),
 "C18": ("(a) sequences of cache gets on the real go-cache over the virtual clock: a stored success is served without re-query until expiry, errors are never stored; (b) the real EnrichWithReverseDns/GetReverseDnsForIPs with a model resolver answering per address, over completion orders of the concurrent lookups: names attached to each hop/destination are the resolver's answer for that same address, empty on failure, rest of the document unchanged, every lookup carries a deadline; (c) the real GetPublicIP/backoff.Retry/handleRequest over a scripted model HTTP client: providers in order, stop at the first valid address, 4xx and invalid bodies final for a provider, every HTTP call carries a deadline.", "5 C18"),
})
CLAIMED.update({
 "C12": ("The filter programs exactly as the real getClassicBPFFilter returns them (generated TCP-tuple program with symbolic tuple; static SYN-ACK, ICMP, drop-all programs) are run by the real x/net/bpf VM on a symbolic 110-byte frame with symbolic captured length and proved equivalent to the reference predicate taken from the property text; and for each protocol the filter its entry point installs is proved to accept every frame whose payload the real matcher turns into a hop.", "5 C12"),
})
CLAIMED.update({
 "C10": ("The four real protocol entry points executed whole over model handles (seams at the socket constructors), real drivers and engines, with one symbolic fault per run (which call fails, which k) and optionally failing Close calls, for bounded preemptions: an injected failure always yields an error wrapping the injected cause and no result; without a fault a result whose reported endpoints are those on the wire; on every path each handle (source, sink, reserved listener, UDP and TCP sockets) is closed exactly once and never used afterwards, and no goroutine outlives the call; only dial failure and a SYN-ACK without SACK-permitted are classified NotSupportedError. The real SetBPFAndDrain over a model RawConn and model socket calls: drop-all, drain to EAGAIN, then the requested program; every injected errno is wrapped.", "5 C10"),
})
CLAIMED.update({
 "C14": ("A vector-clock happens-before monitor inside the symbolic executor checks every memory access of the model goroutines while the real TracerouteParallel runs over each real parallel-capable driver with replies queued at arbitrary points, while runTracerouteMulti runs concurrent runs/probes, and during concurrent reverse-DNS lookups and allocator calls, over all schedules within the preemption bound: no two conflicting accesses are unordered.", "5 C14"),
})
NA = {
 "C13": "needs replies from the real Linux kernel stack in network namespaces; a solver sees only what is encoded, and encoding the kernel would verify my model of it (DESIGN.md 5 C13)",
}
checks = []
for pid in ids:
    if pid in CLAIMED:
        text, ref = CLAIMED[pid]
        checks.append({
            "property_id": pid,
            "quick_cmd": f"bin/vcheck {pid} quick",
            "thorough_cmd": f"bin/vcheck {pid} thorough",
            "evidence_file": f"/verif/evidence/{pid}.json",
            "replay_cmd_template": "bin/vcheck --replay {path}",
            "engine": "symgo",
            "level_claimed": {"category": "model_checking", "text": text, "design_ref": "DESIGN.md section " + ref},
            "level_note": NOTE,
            "technique": TECH,
        })
na = []
for pid in ids:
    if pid not in CLAIMED:
        na.append({"property_id": pid, "reason": NA.get(pid, "solver-based check not built yet in this session (planned, see DESIGN.md); not claimed until its bound has run clean")})
m = {
 "version": 1,
 "setup_cmd": "bin/setup",
 "hooks": {"guard": "verif", "enable": "no hook in /repo: harnesses are injected through go/packages overlays (symbolic run) and go test -overlay (native replay)",
           "baseline_off_cmd": "cd /repo && go test -vet=off -count=1 ./...", "source_commits": [], "add_only": True},
 "engines": [{"name": "symgo", "path": "engine", "serves_properties": sorted(CLAIMED),
              "kind_free_text": "path-forking symbolic executor over go/ssa of the real packages and their dependencies; SMT back ends z3 5.1.0 / cvc5; native replay of every model"}],
 "checks": checks,
 "not_applicable": na,
 "notes": "Solver-based checking of the real code. See DESIGN.md. Genuine defects found are repaired by 'fix:' commits in /repo and listed in known_findings.json.",
}
json.dump(m, open('/verif/MANIFEST.json', 'w'), indent=1)
print("claimed:", sorted(CLAIMED), "not applicable:", len(na))
