#!/usr/bin/env python3
"""Writes /verif/MANIFEST.json from the table below (claimed checks) and the not_applicable list."""
import json
props = [json.loads(l) for l in open('/verif/properties.jsonl')]
ids = [p['id'] for p in props]
TECH = "bounded symbolic execution of the real go/ssa code, SMT (z3/cvc5) decides every path and assertion; models replayed natively"
NOTE = ("Trusted base: the SSA interpreter in /verif/engine (validated on every run by re-executing solver models natively through "
        "go test -overlay), z3 5.1.0 / cvc5 1.0, and the environment models listed in the evidence file (virtual clock, sync, fmt.Errorf, "
        "errors.Is/As, checksum fold summaries, model Source/Sink). Bounds are stated in evidence.coverage.bounds; nothing is claimed outside them.")
CLAIMED = {
 "C01": ("For every variant (ICMP/UDP v4+v6, TCP SYN default/Paris, SACK strict/relaxed) the real SendProbe calls followed by one real ReceiveProbe over an arbitrary packet of the listed lengths: every accepted hop is proved to be backed by a genuine reply to a probe that was sent (oracle written against the bytes that really went out), for all configurations inside the window bound. Bounded model checking: holds for every value inside the bounds, says nothing outside.", "5 C01"),
 "C02": ("Every reply form of the catalogue, with all free fields symbolic, is proved to be accepted as the hop of the probe it answers by the real matchers, for every variant, every TTL position and every sequence/ID base inside the window bound.", "5 C02"),
 "C04": ("Same exploration as C01; the destination flag of every accepted hop is proved equivalent to the protocol's proof-of-arrival form coming from the target address.", "5 C04"),
 "C09": ("Same exploration as C01 over arbitrary bytes: every outcome of ReceiveProbe is proved to be a hop, a retryable error, or the one allowed SACK abort; no Go panic is reachable inside the bounds.", "5 C09"),
}
NA = {
 "C13": "needs replies from the real Linux kernel stack in network namespaces; a solver sees only what is encoded, and encoding the kernel would verify my model of it (DESIGN.md 5 C13)",
}
checks = []
for pid in ids:
    if pid in CLAIMED:
        text, ref = CLAIMED[pid]
        checks.append({
            "property_id": pid,
            "quick_cmd": f"bin/vcheck {pid} quick",
            "thorough_cmd": f"bin/vcheck {pid} thorough",
            "evidence_file": f"/verif/evidence/{pid}.json",
            "replay_cmd_template": "bin/vcheck --replay {path}",
            "engine": "symgo",
            "level_claimed": {"category": "model_checking", "text": text, "design_ref": "DESIGN.md section " + ref},
            "level_note": NOTE,
            "technique": TECH,
        })
na = []
for pid in ids:
    if pid not in CLAIMED:
        na.append({"property_id": pid, "reason": NA.get(pid, "solver-based check not built yet in this session (planned, see DESIGN.md); not claimed until its bound has run clean")})
m = {
 "version": 1,
 "setup_cmd": "bin/setup",
 "hooks": {"guard": "verif", "enable": "no hook in /repo: harnesses are injected through go/packages overlays (symbolic run) and go test -overlay (native replay)",
           "baseline_off_cmd": "cd /repo && go test -vet=off -count=1 ./...", "source_commits": [], "add_only": True},
 "engines": [{"name": "symgo", "path": "engine", "serves_properties": sorted(CLAIMED),
              "kind_free_text": "path-forking symbolic executor over go/ssa of the real packages and their dependencies; SMT back ends z3 5.1.0 / cvc5; native replay of every model"}],
 "checks": checks,
 "not_applicable": na,
 "notes": "Solver-based checking of the real code. See DESIGN.md. Genuine defects found are repaired by 'fix:' commits in /repo and listed in known_findings.json.",
}
json.dump(m, open('/verif/MANIFEST.json', 'w'), indent=1)
print("claimed:", sorted(CLAIMED), "not applicable:", len(na))
